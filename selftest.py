#!/usr/bin/env python3
"""setup self-test: engine imports, solver works, repo source loads through the shim loader."""
import os, sys
sys.path.insert(0, os.path.dirname(os.path.abspath(__file__)))
import z3
from symx import core, loader
from symx.core import S


def main():
    L = loader.Loader()
    sa = L.load('pero_ocr.sequence_alignment')
    C = core.Ctx()
    core.set_ctx(C)
    a, b = S(z3.Int('a')), S(z3.Int('b'))
    n = 0
    for p, res, exc in core.explore(lambda: sa.levenshtein_distance([a], [b])):
        assert exc is None
        assert core.prove(core.lift(res) == z3.If(a.e != b.e, 1, 0)) is None
        n += 1
    assert n >= 1
    print('selftest ok: z3 %s, %d path(s)' % (z3.get_version_string(), n))


if __name__ == '__main__':
    main()

"""symx.shims -- shim modules for the libraries the repo's glue code calls.

Each shim is a small nondeterministic / exact-real stand-in, constrained only
by the documented contract of the library (see DESIGN.md 2.3).  Harnesses may
replace individual entries through Loader(shim_map=...).
"""
import builtins
import math as _math
import types

from . import core
from . import symnp
from .core import S, SB, XR, ite, is_sym


def _ns(name, **kw):
    m = types.ModuleType(name)
    m.__dict__.update(kw)
    return m


class _Missing(types.ModuleType):
    """placeholder for a library that a harness has to stub explicitly"""

    def __init__(self, name, allowed=None):
        super().__init__(name)
        self.__dict__['_allowed'] = allowed or {}
        self.__dict__.update(self._allowed)

    def __getattr__(self, k):
        if k.startswith('__'):
            raise AttributeError(k)
        raise NotImplementedError('%s.%s is not stubbed for this harness' % (self.__name__, k))


class _InertMeta(type):
    """class-level attribute access yields further inert classes, so that
    `torch.nn.Module`, `ET.QName`, `shapely.geometry.Polygon` ... resolve at
    import time; *using* an instance at run time fails loudly."""

    def __getattr__(cls, k):
        if k.startswith('__'):
            raise AttributeError(k)
        return make_inert(cls.__name__ + '.' + k)


class InertBase(metaclass=_InertMeta):
    def __init__(self, *a, **k):
        pass

    def __call__(self, *a, **k):
        if len(a) == 1 and not k and callable(a[0]):
            return a[0]          # used as a decorator (torch.no_grad(), jit(...))
        raise NotImplementedError('inert stub %s was called: the harness must stub it' % type(self).__name__)

    def __getattr__(self, k):
        if k.startswith('__'):
            raise AttributeError(k)
        raise NotImplementedError('inert stub %s.%s was used: the harness must stub it' % (type(self).__name__, k))

    def __enter__(self):
        return self

    def __exit__(self, *a):
        return False


def make_inert(name):
    return _InertMeta(name, (InertBase,), {})


class Inert(types.ModuleType):
    """module whose every attribute is an inert class (import-time only)"""

    def __init__(self, name, allowed=None):
        super().__init__(name)
        if allowed:
            self.__dict__.update(allowed)

    def __getattr__(self, k):
        if k.startswith('__'):
            raise AttributeError(k)
        v = make_inert(self.__name__ + '.' + k)
        self.__dict__[k] = v
        return v


# ---------------------------------------------------------------------------
# builtins
# ---------------------------------------------------------------------------

def _max(*args, **kw):
    if kw or builtins.len(args) == 0:
        return builtins.max(*args, **kw)
    if builtins.len(args) == 1:
        l = builtins.list(args[0])
        if not l:
            raise ValueError('max() arg is an empty sequence')
    else:
        l = builtins.list(args)
    if builtins.any(is_sym(x) or hasattr(x, '__ite__') for x in l):
        return core.smax(l)
    return builtins.max(l)


def _min(*args, **kw):
    if kw or builtins.len(args) == 0:
        return builtins.min(*args, **kw)
    if builtins.len(args) == 1:
        l = builtins.list(args[0])
        if not l:
            raise ValueError('min() arg is an empty sequence')
    else:
        l = builtins.list(args)
    if builtins.any(is_sym(x) or hasattr(x, '__ite__') for x in l):
        return core.smin(l)
    return builtins.min(l)


class _IntMeta(type):
    def __instancecheck__(cls, x):
        return isinstance(x, builtins.int)

    def __subclasscheck__(cls, c):
        return issubclass(c, builtins.int)


class _int(metaclass=_IntMeta):
    """int() that understands symbolic scalars; isinstance(x, int) unchanged"""
    _sym_builtin = 'int'

    def __new__(cls, x=0, *a):
        if a:
            return builtins.int(x, *a)
        if isinstance(x, str) and '\x00N' in x:
            from . import fmt
            return fmt.parse_number(x, 'int')
        if isinstance(x, (S, SB)):
            return core.strunc(x)
        if isinstance(x, symnp.A):
            return _int(x.item())
        if hasattr(x, '__sym_trunc__'):
            return x.__sym_trunc__()
        return builtins.int(x)


class _FloatMeta(type):
    def __instancecheck__(cls, x):
        return isinstance(x, builtins.float)

    def __subclasscheck__(cls, c):
        return issubclass(c, builtins.float)


class _float(metaclass=_FloatMeta):
    _sym_builtin = 'float'

    def __new__(cls, x=0.0):
        if isinstance(x, str) and '\x00N' in x:
            from . import fmt
            return fmt.parse_number(x, 'float')
        if isinstance(x, (S, SB)):
            return core.sfloat(x)
        if isinstance(x, XR) or hasattr(x, '__logaddexp__'):
            return x
        if isinstance(x, symnp.A):
            return _float(x.item())
        if hasattr(x, '__sym_float__'):
            return x.__sym_float__()
        return builtins.float(x)


def _round(x, nd=None):
    if isinstance(x, S):
        if nd is None or nd == 0:
            return core.sround(x)
        raise NotImplementedError('round(S, %r)' % nd)
    return builtins.round(x, nd) if nd is not None else builtins.round(x)


def builtin_overrides():
    return {'max': _max, 'min': _min, 'int': _int, 'float': _float, 'round': _round}


# ---------------------------------------------------------------------------
# math
# ---------------------------------------------------------------------------

def _m_exp(x):
    return symnp._exp(x)


def _m_log(x):
    return symnp._log(x)


def _m_floor(x):
    return core.sfloor(x)


def _m_ceil(x):
    return core.sceil(x)


def _m_sqrt(x):
    return core.ssqrt(x)


def _m_isinf(x):
    if isinstance(x, float):
        return _math.isinf(x)
    if isinstance(x, XR):
        return core.mkb(x.inf)
    return False


def make_math():
    m = types.ModuleType('math')
    m.__dict__.update({k: v for k, v in vars(_math).items() if not k.startswith('__')})
    m.exp = _m_exp
    m.log = _m_log
    m.floor = _m_floor
    m.ceil = _m_ceil
    m.sqrt = _m_sqrt
    m.isinf = _m_isinf
    return m


# ---------------------------------------------------------------------------
# scipy
# ---------------------------------------------------------------------------

def logsumexp(a, axis=None):
    a = symnp.asarray(a)

    def red(l):
        if not l:
            return -_math.inf
        l = symnp._lift_logs(l)
        t = l[0]
        for x in l[1:]:
            t = symnp._logaddexp(t, x)
        return t
    return a._red(red, axis)


class csc_matrix:
    """scipy.sparse.csc_matrix contract: stores the entries that are != 0;
    toarray() gives the stored value, else 0.  (An entry whose value is
    exactly 0 is indistinguishable from 'not stored' -- C09's precondition.)"""

    def __init__(self, a):
        if isinstance(a, csc_matrix):
            a = a._a
        self._a = symnp.asarray(a).copy()
        if self._a.ndim != 2:
            raise ValueError('csc_matrix expects a 2-D array')

    @property
    def shape(self):
        return self._a.shape

    def toarray(self):
        return self._a.copy()

    todense = toarray

    def __getitem__(self, k):
        return csc_matrix(symnp.atleast_2d(self._a[k]))

    def __deepcopy__(self, memo):
        import copy
        return csc_matrix(copy.deepcopy(self._a, memo))


def make_scipy():
    special = Inert('scipy.special', dict(logsumexp=logsumexp))
    misc = _Missing('scipy.misc')
    sparse = Inert('scipy.sparse', dict(csc_matrix=csc_matrix))
    sp = Inert('scipy', {'special': special, 'sparse': sparse, 'misc': misc})
    return {'scipy': sp, 'scipy.special': special, 'scipy.sparse': sparse, 'scipy.misc': misc}


# ---------------------------------------------------------------------------
# pero_ocr.utils (numba probe through a subprocess -> identity jit)
# ---------------------------------------------------------------------------

def _jit(*a, **k):
    if a and callable(a[0]) and not k:
        return a[0]

    def deco(f):
        return f
    return deco


def _compose_path(file_path, reference_path):
    from os.path import isabs, join
    if reference_path and not isabs(file_path):
        file_path = join(reference_path, file_path)
    return file_path


def default_shims():
    m = {
        'numpy': symnp,
        'math': make_math(),
        'pero_ocr.utils': _ns('pero_ocr.utils', jit=_jit, compose_path=_compose_path),
        'numba': _ns('numba', jit=_jit),
    }
    m.update(make_scipy())
    for name in ('torch', 'cv2', 'lxml', 'shapely', 'sklearn', 'skimage', 'safe_gpu', 'lmdb', 'tqdm', 'PIL',
                 'pyamg', 'brnolm', 'tensorflow', 'matplotlib', 'Levenshtein', 'arabic_reshaper'):
        m.setdefault(name, Inert(name))
    return m

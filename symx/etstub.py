"""symx.etstub -- pure-Python stand-in for lxml.etree (element tree only).

Contract assumed of lxml (DESIGN.md 2.3): serialise followed by parse is the identity on element structure,
attribute strings and text, except that text '' parses back as None; un-prefixed tags of a document whose root
declares a default namespace (nsmap[None] or an 'xmlns' attribute) come back as '{ns}tag'.  Escaping, Unicode
legality, pretty-printing and encodings happen inside lxml / libxml2 and are outside every claim.
The stub stores whatever object it is given as text (a str, an SStr, a placeholder string)."""
import copy
import types


def QName(ns, name=None):
    if name is None:
        return ns
    return '{%s}%s' % (ns, name)


class _El:
    def __init__(self, tag, attrib=None, nsmap=None, **extra):
        if not isinstance(tag, str):
            raise TypeError('tag must be str')
        self.tag = tag
        self.attrib = {}
        for k, v in list((attrib or {}).items()) + list(extra.items()):
            self.set(k, v)
        self.nsmap = dict(nsmap or {})
        self.text = None
        self.tail = None
        self._children = []
        self._parent = None

    # attributes
    def set(self, k, v):
        if not isinstance(k, str) or not isinstance(v, str):
            raise TypeError('Argument must be bytes or unicode, got %r' % type(v).__name__)
        self.attrib[k] = v

    def get(self, k, default=None):
        return self.attrib.get(k, default)

    # children
    def append(self, el):
        el._parent = self
        self._children.append(el)

    def remove(self, el):
        for i, c in enumerate(self._children):
            if c is el:
                del self._children[i]
                el._parent = None
                return
        raise ValueError('Element is not a child of this node.')

    def __iter__(self):
        return iter(list(self._children))

    def __len__(self):
        return len(self._children)

    def __getitem__(self, i):
        return self._children[i]

    def getparent(self):
        return self._parent

    def iter(self, tag=None):
        if tag is None or self.tag == tag:
            yield self
        for c in self._children:
            for x in c.iter(tag):
                yield x

    def findall(self, path):
        local = path.rsplit('}', 1)[-1]
        if '/' in local or local.startswith('.') or '*' in local:
            raise NotImplementedError('etstub: path %r' % path)
        return [c for c in self._children if c.tag == path]

    def find(self, path):
        r = self.findall(path)
        return r[0] if r else None

    def __repr__(self):
        return '<El %s %r>' % (self.tag, self.attrib)


def Element(tag, attrib=None, nsmap=None, **extra):
    return _El(tag, attrib, nsmap, **extra)


def SubElement(parent, tag, attrib=None, nsmap=None, **extra):
    el = _El(tag, attrib, nsmap, **extra)
    parent.append(el)
    return el


class _Tree:
    def __init__(self, root):
        self._root = root

    def getroot(self):
        return self._root

    def iter(self, tag=None):
        return self._root.iter(tag)

    def findall(self, path):
        # ElementTree.findall searches the children of the root
        return self._root.findall(path)

    def find(self, path):
        return self._root.find(path)


class XmlBytes(bytes):
    """result of tostring(): carries the tree"""

    def decode(self, *a, **k):
        s = XmlStr('<xml document>')
        s.tree = self.tree
        return s


class XmlStr(str):
    def encode(self, *a, **k):
        b = XmlBytes(b'<xml document>')
        b.tree = self.tree
        return b


class BytesIO:
    """io.BytesIO stand-in that keeps the document object"""

    def __init__(self, data=b''):
        self.data = data


def tostring(root, pretty_print=False, encoding=None, xml_declaration=None, **kw):
    b = XmlBytes(b'<xml document>')
    b.tree = _serialise_parse(root)
    if encoding in (str, 'unicode'):
        return b.decode()
    return b


def _serialise_parse(root):
    """what a parser sees after serialisation"""
    ns = root.nsmap.get(None) or root.attrib.get('xmlns')

    def conv(el):
        tag = el.tag
        if ns and not tag.startswith('{'):
            tag = '{%s}%s' % (ns, tag)
        n = _El(tag)
        for k, v in el.attrib.items():
            if k == 'xmlns':
                continue
            n.attrib[k] = v
        t = el.text
        n.text = None if (t is None or (isinstance(t, str) and t == '') or (hasattr(t, '__len__') and len(t) == 0)) else t
        for c in el._children:
            n.append(conv(c))
        return n
    return conv(root)


def parse(source, parser=None):
    if isinstance(source, BytesIO):
        source = source.data
    if isinstance(source, (XmlBytes, XmlStr)):
        return _Tree(copy.deepcopy(source.tree))
    if hasattr(source, 'tree'):
        return _Tree(copy.deepcopy(source.tree))
    raise NotImplementedError('etstub.parse of %r (files are provided by the harness)' % type(source))


def fromstring(s, parser=None):
    return parse(s).getroot()


def make_module():
    m = types.ModuleType('lxml.etree')
    for k in ('QName', 'Element', 'SubElement', 'tostring', 'parse', 'fromstring'):
        setattr(m, k, globals()[k])
    m._Element = _El
    m.ElementTree = _Tree
    lx = types.ModuleType('lxml')
    lx.etree = m
    return {'lxml': lx, 'lxml.etree': m}


def dump(el, indent=0):
    """canonical nested-tuple form (for comparing documents)"""
    return (el.tag, tuple(sorted(el.attrib.items())), el.text, tuple(dump(c) for c in el._children))

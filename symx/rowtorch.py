"""symx.rowtorch -- a row-level model of the torch tensors and torch.nn modules used by the transformer decoder.

A tensor is a grid over its leading dimensions whose entries ("rows") are tuples of *blocks*; a block is a term of an
uninterpreted sort Vec standing for a vector (of width E, the head dimension, or 1 for a scalar score).  The operations
that act along the last dimension are uninterpreted functions of the blocks they read:

    lin(W, b, x)      one output block of F.linear / nn.Linear       head(i, x)     the i-th head slice of a block
    scale(x)          multiplication by the attention scaling        cat(xs)        concatenation of head blocks
    dot(q, k)         one attention score                            sm(j, scores)  j-th soft-max weight of a score list
    wsum(ws, vs)      weighted sum of value blocks                   add, relu, ln(id, x)

so that two computations are equal iff they apply the same operations to the same data in the same structure -- which is
what cache bookkeeping must preserve.  torch.empty() yields FRESH constants named stale!k: reading a cache cell that was
never written in the current batch shows up as a stale term in the result.  Everything that is pure data movement
(slicing, assignment, view, transpose, chunk, cat, bmm's index structure) is executed concretely on the grid.
The reference semantics of nn.MultiheadAttention.forward and of a masked post-norm TransformerDecoderLayer are written
here from the PyTorch documentation with the same functions.
"""
import itertools
import types
import z3

Vec = z3.DeclareSort('Vec')
ListS = z3.DeclareSort('VecList')
NIL = z3.Const('nil', ListS)
CONS = z3.Function('cons', Vec, ListS, ListS)
LIN = z3.Function('lin', Vec, Vec, Vec, Vec)          # (weight block, bias block, input) -> output block
HEAD = z3.Function('head', z3.IntSort(), Vec, Vec)
SCALE = z3.Function('scale', Vec, Vec)
CAT = z3.Function('catheads', ListS, Vec)
DOT = z3.Function('dot', Vec, Vec, Vec)
SM = z3.Function('softmax', z3.IntSort(), ListS, Vec)
WSUM = z3.Function('wsum', ListS, ListS, Vec)
ADD = z3.Function('add', Vec, Vec, Vec)
RELU = z3.Function('relu', Vec, Vec)
LN = z3.Function('layernorm', Vec, Vec, Vec)           # (module parameters, input)
NOBIAS = z3.Const('no_bias', Vec)
_counter = [0]


def vlist(xs):
    t = NIL
    for x in reversed(list(xs)):
        t = CONS(x, t)
    return t


def const(name):
    return z3.Const(name, Vec)


def fresh_stale():
    _counter[0] += 1
    return z3.Const('stale!%d' % _counter[0], Vec)


def reset():
    _counter[0] = 0


class Device:
    type = 'cpu'


class RT:
    """grid of rows; a row is a tuple of blocks; bw = width of one block along the last dimension"""

    def __init__(self, rows, shape, nb, bw, kT=False, base=None):
        # basic indexing gives a VIEW (base = (tensor, row offsets, block indices)): reads and in-place writes go to the base, as in torch
        self._base = base
        self._rows = None if base is not None else list(rows)          # flat, row-major over `shape`
        self.lshape = tuple(shape)
        self.nb, self.bw = nb, bw
        self.kT = kT                    # last two dimensions transposed (only as the second argument of bmm)
        self.device = Device()
        n = 1
        for s in self.lshape:
            n *= s
        assert len(self.rows) == n, (len(self.rows), self.lshape)

    @property
    def rows(self):
        if self._base is None:
            return self._rows
        root, offs, blocks = self._base
        rr = root.rows
        return [tuple(rr[o][b] for b in blocks) for o in offs]

    def _put(self, o, b, x):
        """in-place write of block b of row o (through to the base of a view)"""
        if self._base is None:
            row = list(self._rows[o])
            row[b] = x
            self._rows[o] = tuple(row)
        else:
            root, offs, blocks = self._base
            root._put(offs[o], blocks[b], x)

    # shape ------------------------------------------------------------------------------------------------
    @property
    def shape(self):
        if self.kT:
            return self.lshape[:-1] + (self.nb * self.bw, self.lshape[-1])
        return self.lshape + (self.nb * self.bw,)

    def size(self, i=None):
        return self.shape if i is None else self.shape[i]

    def __len__(self):
        return self.shape[0]

    def _strides(self):
        st, p = [], 1
        for s in reversed(self.lshape):
            st.append(p)
            p *= s
        return list(reversed(st))

    # indexing ---------------------------------------------------------------------------------------------
    def _resolve(self, key):
        if not isinstance(key, tuple):
            key = (key,)
        nd = len(self.lshape)
        key = list(key)
        if Ellipsis in key:
            i = key.index(Ellipsis)
            key[i:i + 1] = [slice(None)] * (nd + 1 - (len(key) - 1))
        while len(key) < nd + 1:
            key.append(slice(None))
        lead, last = key[:nd], key[nd]
        idx_lists, out_shape = [], []
        for k, n in zip(lead, self.lshape):
            if isinstance(k, slice):
                r = list(range(n))[k]
                idx_lists.append(r)
                out_shape.append(len(r))
            else:
                k = int(k)
                if k < 0:
                    k += n
                if not 0 <= k < n:
                    raise IndexError('index %d is out of bounds for dimension with size %d' % (k, n))
                idx_lists.append([k])
        # last dimension: whole, or a block-aligned slice
        if isinstance(last, slice):
            width = self.nb * self.bw
            a, b, c = last.indices(width)
            assert c == 1 and a % self.bw == 0 and (b % self.bw == 0 or b == width), 'last-dimension slice not aligned to blocks: %r' % (last,)
            blocks = list(range(a // self.bw, b // self.bw))
        else:
            raise NotImplementedError('integer index into the last dimension')
        st = self._strides()
        offs = [sum(i * s for i, s in zip(comb, st)) for comb in itertools.product(*idx_lists)]
        return offs, tuple(out_shape), blocks

    def __getitem__(self, key):
        assert not self.kT
        offs, shape, blocks = self._resolve(key)
        return RT(None, shape, len(blocks), self.bw, base=(self, offs, blocks))

    def __setitem__(self, key, val):
        assert not self.kT
        offs, shape, blocks = self._resolve(key)
        assert isinstance(val, RT) and val.bw == self.bw and val.nb == len(blocks), 'assignment of incompatible blocks'
        vshape = tuple(s for s in val.lshape)
        while len(vshape) > len(shape) and vshape[0] == 1:
            vshape = vshape[1:]
        assert vshape == shape, 'shape mismatch in assignment: %r into %r' % (val.lshape, shape)
        for o, vr in zip(offs, list(val.rows)):
            for b, x in zip(blocks, vr):
                self._put(o, b, x)

    # data movement ----------------------------------------------------------------------------------------
    def contiguous(self):
        return self

    def clone(self):
        return RT(self.rows, self.lshape, self.nb, self.bw, self.kT)

    def detach(self):
        return self

    def to(self, *a, **k):
        return self

    def float(self):
        return self

    def unsqueeze(self, dim):
        assert dim == 0
        return RT(self.rows, (1,) + self.lshape, self.nb, self.bw)

    def transpose(self, a, b):
        nd = len(self.lshape)
        a, b = sorted((a % (nd + 1), b % (nd + 1)))
        if b == nd:
            assert a == nd - 1
            return RT(self.rows, self.lshape, self.nb, self.bw, kT=not self.kT)
        assert not self.kT
        perm = list(range(nd))
        perm[a], perm[b] = perm[b], perm[a]
        new_shape = tuple(self.lshape[p] for p in perm)
        st = self._strides()
        rows = []
        for comb in itertools.product(*[range(s) for s in new_shape]):
            old = [0] * nd
            for pos, p in enumerate(perm):
                old[p] = comb[pos]
            rows.append(self.rows[sum(i * s for i, s in zip(old, st))])
        return RT(rows, new_shape, self.nb, self.bw)

    def view(self, *shape):
        """the two reshapes of multi-head attention: split E into heads, and merge heads back"""
        assert len(shape) == 3 and shape[0] == -1 and not self.kT
        mid, last = shape[1], shape[2]
        L = self.lshape
        if self.nb == 1 and last < self.bw and self.bw % last == 0 and len(L) == 2 and mid == L[1] * (self.bw // last):
            h = self.bw // last          # (L, N, E) -> (L, N*h, d)
            rows = []
            for r in self.rows:
                rows.extend([(HEAD(i, r[0]),) for i in range(h)])
            return RT(rows, (L[0], mid), 1, last)
        if self.nb == 1 and last > self.bw and last % self.bw == 0 and len(L) == 2 and L[1] == mid * (last // self.bw):
            h = last // self.bw          # (L', N*h, d) -> (L', N, E)
            rows = []
            for l in range(L[0]):
                for n in range(mid):
                    rows.append((CAT(vlist([self.rows[l * L[1] + n * h + i][0] for i in range(h)])),))
            return RT(rows, (L[0], mid), 1, last)
        if self.nb == 1 and last == self.bw and len(L) == 2 and mid == L[1]:
            return self
        if len(L) == 4 or True:
            raise NotImplementedError('view%r of a tensor of shape %r' % (shape, self.shape))

    def chunk(self, n, dim=-1, axis=None):
        assert (dim == -1 or axis == -1) and self.nb % n == 0
        k = self.nb // n
        return tuple(RT([r[i * k:(i + 1) * k] for r in self.rows], self.lshape, k, self.bw) for i in range(n))

    # arithmetic -------------------------------------------------------------------------------------------
    def _zip(self, o, f):
        assert isinstance(o, RT) and o.nb == self.nb and o.bw == self.bw
        a, b = self, o
        if a.lshape != b.lshape:
            # leading singleton broadcast
            if len(a.lshape) > len(b.lshape) and a.lshape[0] == 1:
                a = RT(a.rows, a.lshape[1:], a.nb, a.bw)
            elif len(b.lshape) > len(a.lshape) and b.lshape[0] == 1:
                b = RT(b.rows, b.lshape[1:], b.nb, b.bw)
            assert a.lshape == b.lshape, 'cannot add shapes %r and %r' % (self.shape, o.shape)
        return RT([tuple(f(x, y) for x, y in zip(r1, r2)) for r1, r2 in zip(a.rows, b.rows)], self.lshape if len(self.lshape) >= len(o.lshape) else o.lshape, self.nb, self.bw)

    def __add__(self, o):
        return self._zip(o, ADD)

    def __iadd__(self, o):
        # torch adds in place: every other reference to this storage (the tensor this one is a view of, a caller's variable) sees it
        new = self._zip(o, ADD).rows
        assert len(new) == len(self.rows), 'in-place add changes the shape'
        for i, r in enumerate(new):
            for b, x in enumerate(r):
                self._put(i, b, x)
        return self

    def __mul__(self, o):
        assert isinstance(o, float)
        return RT([tuple(SCALE(x) for x in r) for r in self.rows], self.lshape, self.nb, self.bw)


def empty(shape, device=None, **kw):
    """uninitialised memory: fresh 'stale' constants"""
    *lead, last = shape
    bw = _EMBED[0]
    assert last % bw == 0, 'torch.empty with a last dimension that is not a multiple of the embedding width'
    n = 1
    for s in lead:
        n *= s
    return RT([tuple(fresh_stale() for _ in range(last // bw)) for _ in range(n)], tuple(lead), last // bw, bw)


_EMBED = [2]


def set_embed(e):
    _EMBED[0] = e


def bmm(a, b):
    B = a.lshape[0]
    if b.kT:
        # scores: (B, 1, d) x (B, d, S) -> (B, 1, S)
        assert a.lshape[1] == 1 and a.nb == 1 and b.nb == 1 and a.bw == b.bw and b.lshape[0] == B
        S = b.lshape[1]
        rows = []
        for i in range(B):
            rows.append(tuple(DOT(a.rows[i][0], b.rows[i * S + s][0]) for s in range(S)))
        return RT(rows, (B, 1), S, 1)
    # weighted sum: (B, 1, S) x (B, S, d) -> (B, 1, d)
    assert a.bw == 1 and a.lshape[1] == 1 and b.lshape[0] == B and b.lshape[1] == a.nb and b.nb == 1
    S = a.nb
    rows = []
    for i in range(B):
        rows.append((WSUM(vlist(a.rows[i]), vlist([b.rows[i * S + s][0] for s in range(S)])),))
    return RT(rows, (B, 1), 1, b.bw)


def softmax(x, dim=-1):
    assert dim == -1 and x.bw == 1
    return RT([tuple(SM(j, vlist(r)) for j in range(len(r))) for r in x.rows], x.lshape, x.nb, 1)


def cat(tensors, dim=0):
    assert dim == 0
    ts = [t for t in tensors]
    rows = []
    for t in ts:
        rows.extend(t.rows)
    first = ts[0]
    return RT(rows, (sum(t.lshape[0] for t in ts),) + first.lshape[1:], first.nb, first.bw)


class WT:
    """weight matrix as a list of output blocks (slicing its first dimension by multiples of E selects blocks)"""

    def __init__(self, blocks, bw):
        self.blocks, self.bw = list(blocks), bw

    def __getitem__(self, key):
        if isinstance(key, tuple):
            assert key[1] == slice(None)
            key = key[0]
        a, b, c = key.indices(len(self.blocks) * self.bw)
        assert c == 1 and a % self.bw == 0 and b % self.bw == 0
        return WT(self.blocks[a // self.bw:b // self.bw], self.bw)

    @property
    def shape(self):
        return (len(self.blocks) * self.bw, self.bw)


def linear(x, weight, bias=None):
    assert isinstance(x, RT) and x.nb == 1
    bs = bias.blocks if bias is not None else [NOBIAS] * len(weight.blocks)
    assert len(bs) == len(weight.blocks)
    return RT([tuple(LIN(w, b, r[0]) for w, b in zip(weight.blocks, bs)) for r in x.rows], x.lshape, len(weight.blocks), weight.bw)


# -- modules ------------------------------------------------------------------------------------------------

class Module:
    _names = itertools.count()

    def __init__(self, *a, **k):
        pass

    def __call__(self, *a, **k):
        return self.forward(*a, **k)

    def register_buffer(self, name, value, persistent=True):
        setattr(self, name, value)

    def eval(self):
        return self

    def to(self, *a, **k):
        return self


def _pname(prefix):
    return '%s#%d' % (prefix, next(_PCOUNT[0]))


_PCOUNT = [itertools.count()]


def reset_params():
    """parameter names are assigned in construction order: two models built the same way share their weights"""
    _PCOUNT[0] = itertools.count()


class Linear(Module):
    def __init__(self, fin, fout, bias=True):
        n = _pname('linear')
        self.weight = WT([const(n + '.W')], fout)
        self.bias = WT([const(n + '.b')], fout)
        self.fout = fout

    def forward(self, x):
        r = linear(x, self.weight, self.bias)
        return RT(r.rows, r.lshape, 1, self.fout)


class LayerNorm(Module):
    def __init__(self, dim, *a, **k):
        self.p = const(_pname('layernorm'))

    def forward(self, x):
        return RT([tuple(LN(self.p, b) for b in r) for r in x.rows], x.lshape, x.nb, x.bw)


class Dropout(Module):
    def __init__(self, p=0.0):
        pass

    def forward(self, x):
        return x


def relu(x):
    return RT([tuple(RELU(b) for b in r) for r in x.rows], x.lshape, x.nb, x.bw)


class ModuleList(list):
    pass


class MultiheadAttention(Module):
    """reference semantics of torch.nn.MultiheadAttention.forward (batch_first=False, no dropout, optional causal mask),
    written from the PyTorch documentation with the functions of this module"""

    def __init__(self, embed_dim, num_heads, dropout=0., bias=True, add_bias_kv=False, add_zero_attn=False, kdim=None, vdim=None):
        n = _pname('mha')
        self.embed_dim, self.num_heads = embed_dim, num_heads
        self.in_proj_weight = WT([const(n + '.Wq'), const(n + '.Wk'), const(n + '.Wv')], embed_dim)
        self.in_proj_bias = WT([const(n + '.bq'), const(n + '.bk'), const(n + '.bv')], embed_dim)
        self.out_proj = types.SimpleNamespace(weight=WT([const(n + '.Wo')], embed_dim), bias=WT([const(n + '.bo')], embed_dim))

    def forward(self, query, key, value, need_weights=True, attn_mask=None, causal=False, key_padding_mask=None):
        return attention_reference(self, query, key, value, causal=causal or attn_mask is not None), None


def attention_reference(mha, query, key, value, causal=False):
    L, N = query.lshape
    S = key.lshape[0]
    h = mha.num_heads
    Wq, Wk, Wv = mha.in_proj_weight.blocks
    bq, bk, bv = mha.in_proj_bias.blocks
    out = []
    for i in range(L):
        for n in range(N):
            q = SCALE(LIN(Wq, bq, query.rows[i * N + n][0]))
            ks = [LIN(Wk, bk, key.rows[s * N + n][0]) for s in range(S)]
            vs = [LIN(Wv, bv, value.rows[s * N + n][0]) for s in range(S)]
            visible = range(S) if not causal else range(min(S, (S - L) + i + 1))
            heads = []
            for hd in range(h):
                hq = (lambda x: x) if h == 1 else (lambda x, hd=hd: HEAD(hd, x))
                scores = [DOT(hq(q), hq(ks[s])) for s in visible]
                ws = [SM(j, vlist(scores)) for j in range(len(scores))]
                heads.append(WSUM(vlist(ws), vlist([hq(vs[s]) for s in visible])))
            merged = heads[0] if h == 1 else CAT(vlist(heads))
            out.append((LIN(mha.out_proj.weight.blocks[0], mha.out_proj.bias.blocks[0], merged),))
    return RT(out, (L, N), 1, query.bw)


class TransformerDecoderLayer(Module):
    def __init__(self, d_model, nhead, dim_feedforward=2048, dropout=0.1, activation='relu', *a, **k):
        self.self_attn = MultiheadAttention(d_model, nhead)
        self.multihead_attn = MultiheadAttention(d_model, nhead)
        self.linear1 = Linear(d_model, dim_feedforward)
        self.dropout = Dropout(dropout)
        self.linear2 = Linear(dim_feedforward, d_model)
        self.norm1, self.norm2, self.norm3 = LayerNorm(d_model), LayerNorm(d_model), LayerNorm(d_model)
        self.dropout1, self.dropout2, self.dropout3 = Dropout(dropout), Dropout(dropout), Dropout(dropout)
        self.activation = relu


class TransformerDecoder(Module):
    def __init__(self, decoder_layer, num_layers, norm=None):
        self.layers = ModuleList()
        self.num_layers = num_layers
        self.norm = norm


def masked_decoder_reference(decoder, tgt, memory):
    """output of the post-norm decoder stack with a causal mask over the whole target (teacher forcing), all positions"""
    x = tgt
    for layer in decoder.layers:
        sa = attention_reference(layer.self_attn, x, x, x, causal=True)
        x1 = layer.norm1(x + sa)
        ca = attention_reference(layer.multihead_attn, x1, memory, memory)
        x2 = layer.norm2(x1 + ca)
        ff = layer.linear2(layer.activation(layer.linear1(x2)))
        x = layer.norm3(x2 + ff)
    return x


def make_torch():
    """module objects to install as torch / torch.nn / torch.nn.functional / torch.nn.modules"""
    from . import shims
    t = types.ModuleType('torch')
    t.Tensor = RT
    t.empty = empty
    t.bmm = bmm
    t.cat = cat
    t.device = lambda *a: Device()
    t.no_grad = lambda: shims.InertBase()
    F = types.ModuleType('torch.nn.functional')
    F.linear = linear
    F.softmax = softmax
    F.relu = relu
    nn = types.ModuleType('torch.nn')
    nn.Module = Module
    nn.Linear, nn.LayerNorm, nn.Dropout, nn.ModuleList = Linear, LayerNorm, Dropout, ModuleList
    nn.Embedding = shims.make_inert('torch.nn.Embedding')
    nn.TransformerEncoder = shims.make_inert('torch.nn.TransformerEncoder')
    nn.TransformerEncoderLayer = shims.make_inert('torch.nn.TransformerEncoderLayer')
    nn.functional = F
    mods = types.ModuleType('torch.nn.modules')
    mods.TransformerDecoder, mods.TransformerDecoderLayer = TransformerDecoder, TransformerDecoderLayer
    mods.ModuleList, mods.MultiheadAttention = ModuleList, MultiheadAttention
    nn.modules = mods
    t.nn = nn
    t.cuda = shims.Inert('torch.cuda')

    def _missing(name):
        raise NotImplementedError('torch.%s is not provided by the row-level torch model' % name)
    t.__getattr__ = _missing
    return {'torch': t, 'torch.nn': nn, 'torch.nn.functional': F, 'torch.nn.modules': mods, 'torch.cuda': t.cuda}

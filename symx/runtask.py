"""debug helper: python3-vt -m symx.runtask C13 '<task json>'"""
import importlib, json, sys, time
def main():
    mod = importlib.import_module('props.%s' % sys.argv[1].lower())
    task = json.loads(sys.argv[2])
    t = time.time()
    r = mod.run_task(task, None)
    r.pop('sources', None)
    w = r.pop('witnesses', [])
    print(json.dumps(r, indent=1, default=repr)[:3000])
    print('witnesses', len(w), 'wall', round(time.time() - t, 2))
if __name__ == '__main__':
    main()

"""symx.sstr -- short symbolic strings: a concrete-length list of SChar."""
import z3
from . import core
from .core import SChar, SB


class SStr:
    """string look-alike; characters are SChar (or concrete 1-char str)"""

    def __init__(self, chars=()):
        self.c = list(chars)

    @staticmethod
    def fresh(prefix, n):
        return SStr([SChar(z3.Int('%s_%d' % (prefix, i)), '%s_%d' % (prefix, i)) for i in range(n)])

    def __len__(self):
        return len(self.c)

    def __iter__(self):
        return iter(self.c)

    def __getitem__(self, k):
        if isinstance(k, slice):
            def cv(x):
                return x if x is None or isinstance(x, int) else x.__index__()
            return SStr(self.c[slice(cv(k.start), cv(k.stop), cv(k.step))])
        if not isinstance(k, int):
            k = k.__index__()
        return self.c[k]

    def __add__(self, o):
        if isinstance(o, SStr):
            return SStr(self.c + o.c)
        if isinstance(o, str):
            return SStr(self.c + list(o))
        return NotImplemented

    def __radd__(self, o):
        if isinstance(o, str):
            return SStr(list(o) + self.c)
        return NotImplemented

    def __eq__(self, o):
        if isinstance(o, str):
            o = SStr(list(o))
        if not isinstance(o, SStr):
            return False
        if len(o) != len(self):
            return False
        return all(_ceq(a, b) for a, b in zip(self.c, o.c))

    def __ne__(self, o):
        return not self.__eq__(o)

    def __hash__(self):
        return 11

    def __repr__(self):
        return 'SStr(%r)' % (self.c,)

    def __bool__(self):
        return len(self.c) > 0


def _ceq(a, b):
    if isinstance(a, SChar) and isinstance(b, SChar):
        return a == b
    if isinstance(a, str) and isinstance(b, str):
        return a == b
    return False

"""symx.fmt -- numbers inside strings (DESIGN.md 2.7).

str.format / f-strings / str() must return real str objects, so a symbolic number formats to a placeholder token
registered with its value and format spec; int(), float(), round() and json.loads turn a placeholder back into
the symbolic value with the printed precision applied:
    ''  / 'd'   -> the integer (or real) itself
    '.kf'       -> the value correctly rounded to k decimals (ties to even on the exact value)
Ordinary string operations (split, join, in, concatenation) run natively on the surrounding literal text."""
import re
import z3

from . import core
from .core import S

_PH = re.compile('\x00N(\\d+)\x00')
_REG = []          # (z3 term, spec)


def placeholder(x, spec):
    _REG.append((x, spec))
    return '\x00N%d\x00' % (len(_REG) - 1)


def reset():
    del _REG[:]


def has_placeholder(s):
    return isinstance(s, str) and '\x00N' in s


def printed_value(idx):
    """the value a reader of the printed text gets"""
    x, spec = _REG[idx]
    e = x.e if isinstance(x, S) else core.lift(x)
    if spec in ('', 'd', 's'):
        return S(e)
    m = re.fullmatch(r'\.(\d+)f', spec)
    if m:
        k = int(m.group(1))
        scale = 10 ** k
        r = core.sround(S(core._real(e) * scale))
        return S(z3.ToReal(r.e) / scale)
    raise NotImplementedError('format spec %r' % spec)


def parse_number(s, want):
    """s: a string consisting of exactly one placeholder (after strip)"""
    t = s.strip()
    m = _PH.fullmatch(t)
    if not m:
        raise ValueError('could not convert string with embedded symbolic number: %r' % (s,))
    v = printed_value(int(m.group(1)))
    if want == 'int':
        if not v.is_int:
            raise ValueError("invalid literal for int() with base 10: a printed real")
        return v
    return S(core._real(v.e))


def tokens(s):
    """split a string into literal parts and placeholder indices"""
    out = []
    pos = 0
    for m in _PH.finditer(s):
        if m.start() > pos:
            out.append(s[pos:m.start()])
        out.append(int(m.group(1)))
        pos = m.end()
    if pos < len(s):
        out.append(s[pos:])
    return out


def equal_strings(a, b):
    """z3 Bool (or python bool): the two strings print the same text"""
    if a is None or b is None:
        return a is None and b is None
    if not isinstance(a, str) or not isinstance(b, str):
        return a == b
    ta, tb = tokens(a), tokens(b)
    if len(ta) != len(tb):
        return False
    conj = []
    for x, y in zip(ta, tb):
        if isinstance(x, str) or isinstance(y, str):
            if x != y:
                return False
            continue
        vx, vy = printed_value(x), printed_value(y)
        sx, sy = _REG[x][1], _REG[y][1]
        if sx != sy:
            return False
        conj.append(core.lift(vx) == core.lift(vy))
    if not conj:
        return True
    return z3.And(*conj)


def _s_format(self, spec):
    return placeholder(self, spec)


def _s_str(self):
    return placeholder(self, '')


def install():
    """make symbolic scalars format to placeholders"""
    S.__format__ = _s_format
    S.__str__ = _s_str

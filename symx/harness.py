"""symx.harness -- per-task bookkeeping shared by the property harnesses."""
import hashlib
import os
import z3

from . import core
from . import loader as _loader
from .core import S, SB, model_value
from .runner import jsonable


def _run_file(key):
    rd = os.environ.get('VERIF_RUN_DIR')
    if not rd or not os.path.isdir(rd):
        return None
    return os.path.join(rd, hashlib.sha1(key.encode()).hexdigest()[:16])


def _run_count(key):
    """how many counterexample models the tasks of this run have produced for the key so far (shared through the run directory)"""
    f = _run_file(key)
    if f is None:
        return 0
    try:
        return os.path.getsize(f)
    except OSError:
        return 0


def _run_mark(key):
    f = _run_file(key)
    if f is not None:
        try:
            with open(f, 'ab') as fh:
                fh.write(b'x')
        except OSError:
            pass


class Harness:
    def __init__(self, patches=None, shim_map=None, timeout_ms=60000, extra_builtins=None, max_witnesses=6,
                 max_violations=12, solver_opts=None):
        self.loader = _loader.Loader(shim_map=shim_map, patches=patches, extra_builtins=extra_builtins)
        import logging
        logging.disable(logging.CRITICAL)      # the repo logs tracebacks of handled exceptions; irrelevant here
        import warnings
        warnings.simplefilter('ignore')
        self.ctx = core.Ctx(timeout_ms=timeout_ms, solver_opts=solver_opts)
        core.set_ctx(self.ctx)
        self.paths = 0
        self.obligations = 0
        self.violations = []
        self.witnesses = []
        self.inconclusive = []
        self.max_witnesses = max_witnesses
        self.max_violations = max_violations
        self._wit_every = 1

    def load(self, name):
        return self.loader.load(name)

    def split(self, fn, target):
        """prefixes (JSON-able) whose subtrees partition the path space of fn"""
        return [enc_prefix(p) for p in core.split_prefixes(fn, target, ctx_=self.ctx)]

    def explore(self, fn, root=(), max_paths=None):
        root = dec_prefix(root)
        for p, res, exc in core.explore(fn, root=root, ctx_=self.ctx, max_paths=max_paths):
            self.paths += 1
            yield p, res, exc

    def claim(self, cond, key, what, case_fn, robust=()):
        """prove cond under the path condition; on a model record a violation.
        Returns True when the claim holds."""
        self.obligations += 1
        if sum(1 for v in self.violations if v['key'] == key) >= 3 or _run_count(key) >= 8:
            # the key is already reported often enough (this task: 3 models, this run: 8; each is replayed): further instances are
            # not solved for -- finding a model of a polynomial path condition can take minutes and the verdict cannot change
            self.skipped_after_violation = getattr(self, 'skipped_after_violation', 0) + 1
            return False
        if sum(1 for i in self.inconclusive if i['key'] == key) >= 3:
            # three inconclusive answers for this key: the task is inconclusive already, stop paying for more
            return False
        try:
            m = core.prove(cond, what, robust)
        except core.Inconclusive:
            self.inconclusive.append({'key': key, 'what': what})
            return False
        if m is None:
            return True
        _run_mark(key)
        if len(self.violations) < self.max_violations or not any(v['key'] == key for v in self.violations):
            self.violations.append({'key': key, 'what': what, 'case': jsonable(case_fn(m))})
        return False

    def fail(self, key, what, case_fn, robust=()):
        """the path itself is the violation (e.g. an escaping exception)"""
        return self.claim(False, key, what, case_fn, robust=robust)

    def witness(self, case_fn, force=False, extra=()):
        """model of the current path condition -> concrete (inputs, expected)"""
        if len(self.witnesses) >= self.max_witnesses and not force:
            return
        m = core.current_model(extra)
        if m is None:
            return
        self.witnesses.append(jsonable(case_fn(m)))

    def result(self, **extra):
        c = self.ctx
        unused = self.loader.unused_patches()
        r = dict(paths=self.paths, decisions=c.n_decisions, queries=c.nq, unsat=c.n_unsat, sat=c.n_sat,
                 unknown=c.n_unknown, solver_time_s=round(c.tq, 3), obligations=self.obligations,
                 violations=self.violations, witnesses=self.witnesses, inconclusive=self.inconclusive,
                 sources=self.loader.sources)
        if unused:
            r['error'] = 'canary patch did not apply: %r' % (unused,)
        r.update(extra)
        return r


def enc_prefix(p):
    return [list(d) if isinstance(d, tuple) else d for d in p]


def dec_prefix(p):
    def t(x):
        if isinstance(x, list):
            return tuple(t(y) for y in x)
        return x
    return [t(d) for d in (p or [])]


def ints(prefix, n, lo=None, hi=None):
    """n fresh Int scalars (assumed in [lo, hi] when given)"""
    vs = [S(z3.Int('%s%d' % (prefix, i))) for i in range(n)]
    for v in vs:
        if lo is not None:
            core.assume(v.e >= lo)
        if hi is not None:
            core.assume(v.e <= hi)
    return vs


def reals(prefix, n):
    return [S(z3.Real('%s%d' % (prefix, i))) for i in range(n)]


def mv(m, x):
    """model value of wrapper / list of wrappers / plain value"""
    if isinstance(x, (list, tuple)):
        return [mv(m, v) for v in x]
    if isinstance(x, dict):
        return {k: mv(m, v) for k, v in x.items()}
    if hasattr(x, 'tolist') and hasattr(x, 'shape'):
        return mv(m, x.tolist())
    return model_value(m, x)

"""symx.runner -- drives one property check: task pool, replay of solver
models against the real code, known findings, canaries, evidence."""
import fractions
import hashlib
import importlib
import json
import multiprocessing as mp
import os
import subprocess
import sys
import shutil
import tempfile
import time
import traceback

VERIF = os.path.dirname(os.path.dirname(os.path.abspath(__file__)))
REPO = os.environ.get('VERIF_REPO', '/repo')
REAL_PY = os.environ.get('VERIF_REAL_PY', '/venv/bin/python')
NPROC = int(os.environ.get('VERIF_NPROC', '16'))

EXIT_OK, EXIT_VIOLATION, EXIT_HARNESS = 0, 1, 2


def jsonable(x):
    """model values -> JSON"""
    if isinstance(x, fractions.Fraction):
        if x.denominator == 1:
            return int(x.numerator)
        return '%d/%d' % (x.numerator, x.denominator)
    if isinstance(x, (list, tuple)):
        return [jsonable(v) for v in x]
    if isinstance(x, dict):
        return {str(k): jsonable(v) for k, v in x.items()}
    if isinstance(x, float) and (x != x or abs(x) == float('inf')):
        return 'inf' if x > 0 else ('-inf' if x < 0 else 'nan')
    if isinstance(x, (int, float, str, bool)) or x is None:
        return x
    return repr(x)


def _worker(args):
    modname, task, patches = args
    t0 = time.time()
    if os.environ.get('VERIF_DEBUG'):
        import faulthandler, signal
        faulthandler.register(signal.SIGUSR1, all_threads=True)
        sys.stderr.write('START %d %s\n' % (os.getpid(), json.dumps(task)[:200]))
    try:
        mod = importlib.import_module(modname)
        res = mod.run_task(task, patches)
        res.setdefault('error', None)
    except BaseException:
        res = {'error': traceback.format_exc()}
    res['task'] = task
    res['wall_s'] = round(time.time() - t0, 3)
    if os.environ.get('VERIF_DEBUG'):
        sys.stderr.write('END %d %.1fs\n' % (os.getpid(), res['wall_s']))
    return res


def run_tasks(modname, tasks, patches=None, nproc=None):
    """all tasks of one exploration; they share a scratch directory (VERIF_RUN_DIR) through which the harnesses count the
    counterexample models found per violation key, so that a broken tree does not pay for hundreds of models of one defect"""
    rd = tempfile.mkdtemp(prefix='verif_run_')
    old = os.environ.get('VERIF_RUN_DIR')
    os.environ['VERIF_RUN_DIR'] = rd
    try:
        return _run_tasks(modname, tasks, patches, nproc)
    finally:
        if old is None:
            os.environ.pop('VERIF_RUN_DIR', None)
        else:
            os.environ['VERIF_RUN_DIR'] = old
        shutil.rmtree(rd, ignore_errors=True)


def _run_tasks(modname, tasks, patches=None, nproc=None):
    nproc = nproc or NPROC
    args = [(modname, t, patches) for t in tasks]
    if not args:
        return []
    if nproc == 1 or len(args) == 1:
        return [_worker(a) for a in args]
    ctx = mp.get_context('fork')
    # hard wall-clock guard per task: a solver call that ignores its timeout must not hang the check
    limit = float(os.environ.get('VERIF_TASK_TIMEOUT', '1500'))
    pool = ctx.Pool(min(nproc, len(args)), maxtasksperchild=8)
    out = []
    try:
        pending = [(a, pool.apply_async(_worker, (a,))) for a in args]
        t_last = time.time()
        while pending:
            still = []
            for a, r in pending:
                if r.ready():
                    out.append(r.get())
                    t_last = time.time()
                else:
                    still.append((a, r))
            pending = still
            if pending and time.time() - t_last > limit:
                for a, r in pending:
                    out.append({'error': 'task exceeded the hard time limit of %.0fs (solver did not return)' % limit,
                                'task': a[1], 'wall_s': limit})
                break
            if pending:
                time.sleep(0.05)
    finally:
        pool.terminate()
        pool.join()
    return out


def expand_splits(modname, tasks, patches=None):
    """tasks carrying 'split': n are replaced by sub-tasks, one per decision prefix"""
    todo = [t for t in tasks if t.get('split')]
    if not todo:
        return tasks
    out = [t for t in tasks if not t.get('split')]
    res = run_tasks(modname, [dict(t, split_only=t['split']) for t in todo], patches)
    for r in res:
        t = dict(r['task'])
        t.pop('split_only', None)
        n = t.pop('split')
        if r.get('error') or 'prefixes' not in r:
            out.append(t)          # fall back to the unsplit task (error will resurface there)
            continue
        for pre in r['prefixes']:
            out.append(dict(t, prefix=pre))
    return out


def real_replay(prop_id, case, mode='violation', timeout=600):
    """run props/<id>_real.py:replay(case) under the repo's interpreter on the
    real, unmodified modules.  Returns dict(reproduced=..., detail=...)."""
    with tempfile.NamedTemporaryFile('w', suffix='.json', delete=False, dir=tempfile.gettempdir()) as f:
        json.dump({'property': prop_id, 'mode': mode, 'case': case}, f)
        path = f.name
    try:
        return real_replay_file(path, timeout)
    finally:
        os.unlink(path)


def real_replay_file(path, timeout=600):
    env = dict(os.environ)
    env['PYTHONPATH'] = REPO + os.pathsep + VERIF + os.pathsep + env.get('PYTHONPATH', '')
    env.setdefault('OMP_NUM_THREADS', '1')
    env['PYTHONWARNINGS'] = 'ignore'
    try:
        out = subprocess.run([REAL_PY, os.path.join(VERIF, 'replay.py'), path], capture_output=True, text=True,
                             timeout=timeout, env=env, cwd=VERIF)
    except subprocess.TimeoutExpired:
        return {'reproduced': None, 'detail': 'replay timed out'}
    for line in reversed(out.stdout.strip().splitlines()):
        if line.startswith('REPLAY-RESULT '):
            return json.loads(line[len('REPLAY-RESULT '):])
    return {'reproduced': None, 'detail': 'replay failed: rc=%s stdout=%s stderr=%s' % (out.returncode, out.stdout[-2000:], out.stderr[-3000:])}


def load_known():
    p = os.path.join(VERIF, 'known_findings.json')
    if not os.path.exists(p):
        return []
    with open(p) as f:
        return json.load(f)['findings']


class Check:
    def __init__(self, prop_id, tier, seed=0):
        self.id = prop_id
        self.tier = tier
        self.seed = seed
        self.modname = 'props.%s' % prop_id.lower()
        self.mod = importlib.import_module(self.modname)
        self.t0 = time.time()
        self.lines = []

    def say(self, s):
        print(s, flush=True)

    def run(self, with_canaries=None):
        mod = self.mod
        meta = mod.META
        tasks = expand_splits(self.modname, mod.tasks(self.tier))
        results = run_tasks(self.modname, tasks)
        errors = [r for r in results if r.get('error')]
        tot = dict(paths=0, decisions=0, queries=0, unsat=0, sat=0, unknown=0, solver_time_s=0.0, obligations=0)
        violations = []
        witnesses = []
        inconclusive = []
        sources = {}
        for r in results:
            for k in tot:
                tot[k] += r.get(k, 0)
            violations.extend(r.get('violations', []))
            witnesses.extend(r.get('witnesses', []))
            inconclusive.extend(r.get('inconclusive', []))
            sources.update(r.get('sources', {}))
        status = EXIT_OK
        notes = []
        for r in errors:
            status = EXIT_HARNESS
            self.say('HARNESS-ERROR property=%s task=%s\n%s' % (self.id, json.dumps(r['task']), r['error']))
        if inconclusive:
            status = EXIT_HARNESS
            for inc in inconclusive[:10]:
                self.say('INCONCLUSIVE property=%s %s' % (self.id, json.dumps(jsonable(inc))[:400]))
        if tot['paths'] == 0 and not errors:
            status = EXIT_HARNESS
            self.say('HARNESS-ERROR property=%s vacuous: no path reached an assertion' % self.id)

        # --- replay witnesses (reachability + translation validation) --------
        max_w = meta.get('max_witness_replays', {'quick': 24, 'thorough': 96})[self.tier]
        if os.environ.get('VERIF_ALL_WITNESSES'):
            max_w = 10 ** 6          # development aid: replay every witness prediction, not a spread of them
        wsel = _spread(witnesses, max_w)
        validated = 0
        wbad = []
        if wsel:
            rr = real_replay(self.id, wsel, mode='witnesses')
            for w, res in zip(wsel, rr.get('results', [])):
                if res.get('match'):
                    validated += 1
                else:
                    wbad.append((w, res))
            if rr.get('reproduced') is None and not rr.get('results'):
                status = EXIT_HARNESS
                self.say('HARNESS-ERROR property=%s witness replay failed: %s' % (self.id, rr.get('detail')))
        for w, res in wbad[:5]:
            status = EXIT_HARNESS
            self.say('HARNESS-ERROR property=%s symbolic prediction differs from the real code on %s: %s'
                     % (self.id, json.dumps(w)[:600], json.dumps(res)[:600]))
        if meta.get('needs_witness', True) and not errors and validated == 0:
            status = EXIT_HARNESS
            self.say('HARNESS-ERROR property=%s no witness could be validated against the real code' % self.id)

        # --- violations: replay, classify, known findings ---------------------
        known = [k for k in load_known() if k['property'] == self.id and k.get('status') == 'known']
        by_key = {}
        for v in violations:
            by_key.setdefault(v['key'], []).append(v)
        n_viol = 0
        known_hit = {}
        replayed = 0
        os.makedirs(os.path.join(VERIF, 'replays'), exist_ok=True)
        for key, vs in sorted(by_key.items()):
            ok = None
            for v in vs[:4]:
                rr = real_replay(self.id, v['case'], mode='violation')
                replayed += 1
                if rr.get('reproduced'):
                    ok = (v, rr)
                    break
                last = rr
            if ok is None:
                status = max(status, EXIT_HARNESS)
                self.say('HARNESS-ERROR property=%s model for %s does not reproduce on the real code: %s ; case=%s'
                         % (self.id, key, json.dumps(last)[:800], json.dumps(vs[0]['case'])[:800]))
                continue
            v, rr = ok
            kf = [k for k in known if k['key'] == key]
            if kf:
                known_hit[key] = (kf[0], v)
                continue
            n_viol += 1
            sha = hashlib.sha1(json.dumps(v['case'], sort_keys=True).encode()).hexdigest()[:10]
            rp = os.path.join(VERIF, 'replays', '%s-%s.json' % (self.id, sha))
            with open(rp, 'w') as f:
                json.dump({'property': self.id, 'mode': 'violation', 'key': key, 'what': v['what'], 'case': v['case'],
                           'real': rr}, f, indent=1)
            self.say('VIOLATION property=%s replay=%s' % (self.id, rp))
            self.say('  key=%s what=%s detail=%s' % (key, v['what'], str(rr.get('detail'))[:300]))
        for key, (kf, v) in sorted(known_hit.items()):
            self.say('KNOWN-FINDING: property=%s %s [%s]' % (self.id, kf['what'], key))
        if n_viol:
            status = EXIT_VIOLATION if status != EXIT_HARNESS else status
            if status == EXIT_HARNESS and n_viol:
                status = EXIT_VIOLATION

        # --- canaries ---------------------------------------------------------
        canary_report = []
        if with_canaries is None:
            with_canaries = (self.tier == 'thorough')
        if with_canaries and hasattr(mod, 'canaries'):
            for c in mod.canaries(self.tier):
                cres = run_tasks(self.modname, expand_splits(self.modname, c['tasks'], c['patches']), patches=c['patches'])
                cerr = [r for r in cres if r.get('error')]
                cv = [v for r in cres for v in r.get('violations', [])]
                if c.get('ignore_keys'):
                    cv = [v for v in cv if v['key'] not in c['ignore_keys']]
                expect = c.get('expect', True)
                got = bool(cv)
                entry = {'name': c['name'], 'expect_violation': expect, 'violations': len(cv),
                         'keys': sorted({v['key'] for v in cv})[:6], 'errors': len(cerr)}
                canary_report.append(entry)
                if cerr and not cv and expect and c.get('error_counts', False):
                    entry['detected_by'] = 'exception'
                    continue
                if cerr and not (expect and got):
                    status = max(status, EXIT_HARNESS) if status != EXIT_VIOLATION else status
                    self.say('HARNESS-ERROR property=%s canary %s: %s' % (self.id, c['name'], cerr[0]['error'][-1500:]))
                elif got != expect:
                    status = max(status, EXIT_HARNESS) if status != EXIT_VIOLATION else status
                    self.say('HARNESS-ERROR property=%s canary %s %s' % (self.id, c['name'],
                             'survived (no violation found)' if expect else 'negative control raised %s' % entry['keys']))

        wall = time.time() - self.t0
        samples = [w for w in wsel[:3]] + [v['case'] for v in violations[:2]]
        if not samples:
            samples = [{'task': t} for t in tasks[:3]]
        ev = {
            'property_id': self.id,
            'tier': self.tier,
            'seed': self.seed,
            'level': 'model_checking',
            'coverage': {
                'states': max(tot['paths'], 0),
                'transitions': max(tot['decisions'], 0),
                'traces_validated_against_impl': validated + replayed,
                'samples': jsonable(samples),
                'exhaustive': False,
                'tasks': len(tasks),
                'task_list': jsonable(tasks[:200]),
                'queries': tot['queries'],
                'unsat': tot['unsat'],
                'sat': tot['sat'],
                'unknown': tot['unknown'],
                'obligations_discharged': tot['obligations'],
                'solver_time_s': round(tot['solver_time_s'], 2),
                'functions_encoded': meta.get('functions', []),
                'sources_sha256': sources,
                'bounds': meta.get('bounds', {}).get(self.tier, meta.get('bounds')),
                'outside_claim': meta.get('outside', []),
                'stubs': meta.get('stubs', []),
                'canaries': canary_report,
                'known_findings_hit': sorted(known_hit),
                'witnesses_validated': validated,
                'violation_models_replayed': replayed,
                'engine': 'symx: symbolic execution of /repo source text over z3 terms (z3 %s)' % _z3v(),
                'exit_status': status,
            },
            'assumptions': meta.get('assumptions', []),
            'wall_s': round(wall, 2),
            'violations': n_viol,
        }
        evdir = os.environ.get('VERIF_EVIDENCE_DIR') or os.path.join(VERIF, 'evidence')
        os.makedirs(evdir, exist_ok=True)
        with open(os.path.join(evdir, '%s.json' % self.id), 'w') as f:
            json.dump(ev, f, indent=1)
        self.say('%s %s: tasks=%d paths=%d decisions=%d queries=%d (unsat %d, sat %d, unknown %d) solver=%.1fs '
                 'witnesses_validated=%d violations=%d known=%d canaries=%d wall=%.1fs -> exit %d'
                 % (self.id, self.tier, len(tasks), tot['paths'], tot['decisions'], tot['queries'], tot['unsat'],
                    tot['sat'], tot['unknown'], tot['solver_time_s'], validated, n_viol, len(known_hit),
                    len(canary_report), wall, status))
        return status


def _spread(items, n):
    if len(items) <= n:
        return list(items)
    step = len(items) / float(n)
    return [items[int(i * step)] for i in range(n)]


def _z3v():
    try:
        import z3
        return z3.get_version_string()
    except Exception:
        return '?'

"""symx.core -- path explorer and symbolic scalar wrappers.

The repo's functions are executed on wrapper objects that carry z3 terms.  A
Python-level branch on a symbolic condition asks the solver which outcomes are
feasible under the current path condition and forks; forking is implemented by
re-execution with a recorded decision prefix (CrossHair / KLEE scheme).  The
solver's assertion stack is kept in sync with the decision prefix so that all
feasibility and property queries are incremental.

Decision slots (entries of Path.dec):
    True / False        -- a branch on a z3 Bool
    ('A',)              -- an assumption (single outcome, literal on the stack)
    ('n', i)            -- solver-free nondeterministic choice i of n
    ('c', v)            -- concretisation of an integer term to the value v
    ('c?', excl)        -- "concretise to anything not in excl" (pending fork)
"""
import os
import sys
import time
import threading
import itertools
import fractions
import math
import z3

INF = float('inf')
if not hasattr(z3.IntNumRef, 'as_fraction'):
    z3.IntNumRef.as_fraction = lambda self: fractions.Fraction(self.as_long())
if hasattr(sys, 'set_int_max_str_digits'):
    sys.set_int_max_str_digits(0)


class Abort(BaseException):
    """Path is infeasible / cut; not an error."""


class Inconclusive(Exception):
    """Solver answered unknown on a property query."""


class PropertyViolation(Exception):
    def __init__(self, what, model=None, case=None):
        super().__init__(what)
        self.what = what
        self.model = model
        self.case = case


class Path:
    def __init__(self, prefix):
        self.dec = list(prefix)
        self.pos = 0
        self.forks = []
        self.nfresh = 0
        self.notes = {}


_PROC = {'slow_seen': False, 'fast_ms': None}


class Ctx:
    """One per worker process and exploration."""

    def __init__(self, timeout_ms=60000, logic=None, solver_opts=None):
        self.solver = z3.Solver() if logic is None else z3.SolverFor(logic)
        self.solver.set('timeout', timeout_ms)
        for k, v in (solver_opts or {}).items():
            self.solver.set(k, v)
        self.timeout_ms = timeout_ms
        # mirror of the stack holding only the linear literals: once a query on the full path condition has been slow,
        # a branch condition that the linear part alone decides is not sent to the full solver (see branch())
        self.light = z3.Solver()
        self.light.set('timeout', 2000)
        self.frames = []         # literal of every frame on the stack (for the mirror)
        self.light_depth = 0
        self.slow_seen = _PROC['slow_seen']      # sticky per worker process: the next task of the same check starts warned
        self.n_light = 0
        self.stack = []          # decisions whose frames are on the solver
        self.nq = 0
        self.tq = 0.0
        self.n_unsat = 0
        self.n_sat = 0
        self.n_unknown = 0
        self.n_decisions = 0
        self.cur = None
        self.max_paths = None
        self.step_budget = None

    def _set_timeout(self, ms):
        # solver.set() per query is not free (C12: 4x wall time): only when the value changes
        if getattr(self, '_cur_timeout', None) != ms:
            self.solver.set('timeout', ms)
            self._cur_timeout = ms

    def _sync_light(self):
        """bring the linear mirror to the current stack (built on demand: pushing every literal twice costs too much)"""
        while self.light_depth > len(self.stack):
            self.light.pop()
            self.light_depth -= 1
        while self.light_depth < len(self.stack):
            lit = self.frames[self.light_depth]
            self.light.push()
            if lit is not None and _is_linear(lit):
                self.light.add(lit)
            self.light_depth += 1

    # -- raw queries -------------------------------------------------------
    def check(self, *extra, timeout_ms=None):
        self.nq += 1
        t = time.time()
        if extra:
            self.solver.push()
            self.solver.add(*extra)
        tmo = timeout_ms or self.timeout_ms
        fast = getattr(self, 'fast_ms', 15000)
        inc_tmo = min(tmo, fast) if fast else tmo
        self._set_timeout(inc_tmo)
        if timeout_ms:
            self.solver.set('rlimit', timeout_ms * 2000)     # deterministic resource bound: nlsat may ignore the timeout
        # watchdog: some z3 tactics (nlsat big-number loops) ignore the soft timeout
        wd = threading.Timer(inc_tmo / 1000.0 * 1.5 + 5, z3.main_ctx().interrupt)
        wd.daemon = True
        wd.start()
        model = None
        try:
            r = str(self.solver.check())
        except z3.Z3Exception:
            r = 'unknown'
        finally:
            wd.cancel()
            if timeout_ms:
                self.solver.set('rlimit', 0)
        if r == 'sat':
            model = self.solver.model()
        elif r == 'unknown':
            # the incremental core (push/pop) and the one-shot tactic are different procedures: a query one of them does not
            # finish is often immediate for the other.  Retry in a fresh solver; once that has paid off on this context,
            # later incremental attempts get a short budget before the retry.
            s2 = z3.Solver()
            s2.set('timeout', tmo)
            s2.add(*self.solver.assertions())
            wd = threading.Timer(tmo / 1000.0 * 1.5 + 5, z3.main_ctx().interrupt)
            wd.daemon = True
            wd.start()
            try:
                r = str(s2.check())
            except z3.Z3Exception:
                r = 'unknown'
            finally:
                wd.cancel()
            if r != 'unknown':
                self.n_fresh = getattr(self, 'n_fresh', 0) + 1
            if r == 'sat':
                model = s2.model()
            if r == 'unknown' and inc_tmo < tmo:
                # the shortened first attempt gets its full budget after all
                self._set_timeout(tmo)
                wd = threading.Timer(tmo / 1000.0 * 1.5 + 5, z3.main_ctx().interrupt)
                wd.daemon = True
                wd.start()
                try:
                    r = str(self.solver.check())
                except z3.Z3Exception:
                    r = 'unknown'
                finally:
                    wd.cancel()
                if r == 'sat':
                    model = self.solver.model()
        if r == 'sat':
            self.n_sat += 1
            self._model = model
        elif r == 'unsat':
            self.n_unsat += 1
        else:
            self.n_unknown += 1
            if os.environ.get('VERIF_DEBUG'):
                sys.stderr.write('unknown: %s\n' % self.solver.reason_unknown())
        if extra:
            self.solver.pop()
        dt = time.time() - t
        self.tq += dt
        if dt > 10:
            self.slow_seen = _PROC['slow_seen'] = True
        if dt > 5 and os.environ.get('VERIF_DEBUG'):
            sys.stderr.write('slow query %.1fs -> %s (%d extra)\n' % (dt, r, len(extra)))
        return r

    def model(self):
        return self._model

    # -- stack sync --------------------------------------------------------
    def begin_path(self, prefix):
        common = 0
        for a, b in zip(self.stack, prefix):
            if a != b:
                break
            common += 1
        while len(self.stack) > common:
            self.solver.pop()
            self.stack.pop()
            self.frames.pop()
        while self.light_depth > len(self.stack):
            self.light.pop()
            self.light_depth -= 1
        p = Path(prefix)
        self.cur = p
        return p

    def _slot(self, d, lit):
        """Record decision d (with optional literal) at p.pos."""
        p = self.cur
        i = p.pos
        if i < len(self.stack):
            # shared with the previous path: frame is already on the solver
            assert self.stack[i] == d, (i, self.stack[i], d)
        else:
            assert i == len(self.stack), (i, len(self.stack))
            self.solver.push()
            if lit is not None:
                self.solver.add(lit)
            self.frames.append(lit)
            self.stack.append(d)
        if i >= len(p.dec):
            p.dec.append(d)
        p.pos += 1
        self.n_decisions += 1


CTX = None


def ctx():
    return CTX


def cur():
    return CTX.cur


def set_ctx(c):
    global CTX
    CTX = c


def fresh_name(base):
    p = CTX.cur
    p.nfresh += 1
    return '%s!%d' % (base, p.nfresh)


# ---------------------------------------------------------------------------
# decisions
# ---------------------------------------------------------------------------

class Guide:
    """concrete valuation of the input variables: in guided (concolic) mode every decision is
    evaluated instead of being forked; no solver call is made.  Used to produce witnesses
    (symbolic prediction vs. the real code) where solving the path condition is expensive."""

    def __init__(self, values):
        self.subs = [(v, (z3.RealVal(x) if v.sort() == z3.RealSort() else (z3.BoolVal(x) if v.sort() == z3.BoolSort() else z3.IntVal(x))))
                     for v, x in values]

    def eval(self, e, model_completion=True):
        r = z3.simplify(z3.substitute(e, *self.subs))
        return r

    def truth(self, c):
        r = self.eval(c)
        if z3.is_true(r):
            return True
        if z3.is_false(r):
            return False
        raise GuideIncomplete('condition does not evaluate under the guide: %s' % r)

    def value(self, e):
        return model_value(self, e)


class GuideIncomplete(Exception):
    pass


def guide():
    return CTX.cur.notes.get('guide') if CTX is not None and CTX.cur is not None else None


def guided_run(fn, g, ctx_=None):
    """run fn() once along the path selected by the valuation g; returns (result, exception)"""
    C = ctx_ or CTX
    p = C.begin_path([])
    p.notes['guide'] = g
    try:
        return fn(), None
    except Abort:
        return None, Abort('guide violates an assumption')
    except Exception as e:
        return None, e
    finally:
        C.begin_path([])


_LIN_CACHE = {}


def _is_linear(e, depth=0):
    """no product / quotient / power of two non-constant terms anywhere in e (uninterpreted functions are allowed)"""
    k = e.get_id()
    hit = _LIN_CACHE.get(k)
    if hit is not None:
        return hit[1]          # the entry keeps its term alive, so the id cannot have been re-used for another term
    r = True
    if z3.is_app(e):
        kind = e.decl().kind()
        ch = e.children()
        if kind == z3.Z3_OP_MUL:
            r = sum(0 if z3.is_rational_value(x) or z3.is_int_value(x) else 1 for x in ch) <= 1
        elif kind in (z3.Z3_OP_DIV, z3.Z3_OP_IDIV, z3.Z3_OP_MOD, z3.Z3_OP_REM):
            r = z3.is_rational_value(ch[1]) or z3.is_int_value(ch[1])
        elif kind == z3.Z3_OP_POWER:
            r = False
        if r:
            r = all(_is_linear(x, depth + 1) for x in ch)
    elif z3.is_quantifier(e):
        r = False
    if len(_LIN_CACHE) > 200000:
        _LIN_CACHE.clear()
    _LIN_CACHE[k] = (e, r)
    return r


def branch(c):
    """z3 Bool (or python bool) -> python bool, forking."""
    if isinstance(c, bool):
        return c
    if isinstance(c, SB):
        c = c.e
        if isinstance(c, bool):
            return c
    c = z3.simplify(c)
    if z3.is_true(c):
        return True
    if z3.is_false(c):
        return False
    g = CTX.cur.notes.get('guide')
    if g is not None:
        d = g.truth(c)
        CTX._slot(d, c if d else z3.Not(c))
        return d
    C = CTX
    p = C.cur
    if p.pos < len(p.dec):
        d = p.dec[p.pos]
        assert d is True or d is False, ('branch expected bool slot', d, p.pos)
        C._slot(d, c if d else z3.Not(c))
        return d
    if (C.slow_seen or getattr(C, 'light_first', False)) and _is_linear(c):
        # the linear part of the path condition is a subset of it: what it refutes is refuted
        C._sync_light()
        lt = str(C.light.check(c))
        lf = str(C.light.check(z3.Not(c)))
        if (lt == 'unsat') != (lf == 'unsat'):
            C.n_light += 1
            d = (lf == 'unsat')
            C._slot(d, c if d else z3.Not(c))
            return d
    t = C.check(c)
    if p.notes.get('split'):
        f = C.check(z3.Not(c))
        ch = []
        if t != 'unsat':
            ch.append(p.dec[:p.pos] + [True])
        if f != 'unsat':
            ch.append(p.dec[:p.pos] + [False])
        raise _SplitStop(ch + p.forks)
    if t == 'unsat':
        d = False
        if p.notes.get('lazy'):
            if C.check(z3.Not(c)) == 'unsat':
                raise Abort('infeasible')
    else:
        f = C.check(z3.Not(c))
        if f == 'unsat':
            d = True
        else:
            d = True
            p.forks.append(p.dec[:p.pos] + [False])
    C._slot(d, c if d else z3.Not(c))
    return d


def assume(c, check=True):
    """Add a constraint to the path condition.  With check=False the
    feasibility of the path is not tested here (lazy feasibility)."""
    if isinstance(c, SB):
        c = c.e
    if isinstance(c, bool):
        if not c:
            raise Abort('assume False')
        return
    C = CTX
    p = C.cur
    g = p.notes.get('guide')
    if g is not None:
        if not g.truth(c):
            raise Abort('guide violates assumption')
        C._slot(('A',), c)
        return
    replay = p.pos < len(C.stack)
    C._slot(('A',), c)
    if not check:
        p.notes['lazy'] = True
    elif not replay:
        if C.check() == 'unsat':
            raise Abort('assumption infeasible')


def axiom(c):
    """Add a fact that cannot make the path infeasible (no check, not lazy)."""
    CTX._slot(('A',), c)


def choose(n):
    """solver-free nondeterministic choice among n options"""
    if n <= 0:
        raise Abort('choose(0)')
    C = CTX
    p = C.cur
    if p.notes.get('guide') is not None and n > 1:
        raise GuideIncomplete('nondeterministic choice in guided mode: the stub has to decide from the guide')
    if p.pos < len(p.dec):
        d = p.dec[p.pos]
        assert d[0] == 'n', d
        C._slot(d, None)
        return d[1]
    if p.notes.get('split') and n > 1:
        raise _SplitStop([p.dec[:p.pos] + [('n', alt)] for alt in range(n)] + p.forks)
    for alt in range(n - 1, 0, -1):
        p.forks.append(p.dec[:p.pos] + [('n', alt)])
    C._slot(('n', 0), None)
    return 0


MAX_CONCRETIZE = 256


def concretize(e):
    """Fork over all feasible integer values of the z3 Int term e."""
    if isinstance(e, int):
        return e
    if isinstance(e, S):
        e = e.e
    e = z3.simplify(e)
    if z3.is_int_value(e):
        return e.as_long()
    if z3.is_rational_value(e) and e.denominator_as_long() == 1:
        return e.numerator_as_long()
    C = CTX
    p = C.cur
    g = p.notes.get('guide')
    if g is not None:
        v = g.eval(e)
        v = v.as_long() if z3.is_int_value(v) else int(v.as_fraction())
        C._slot(('c', v), e == v)
        return v
    if p.pos < len(p.dec):
        d = p.dec[p.pos]
        if d[0] == 'c':
            C._slot(d, e == d[1])
            return d[1]
        assert d[0] == 'c?', d
        excl = d[1]
        p.dec.pop()          # pending slot: replaced below
    else:
        excl = ()
    if len(excl) > MAX_CONCRETIZE:
        raise RuntimeError('concretize: more than %d values for %s' % (MAX_CONCRETIZE, e))
    r = C.check(*[e != v for v in excl])
    if r == 'unsat':
        raise Abort('no more values')
    if r != 'sat':
        raise Inconclusive('concretize: solver unknown')
    mv = C.model().eval(e, model_completion=True)
    if z3.is_int_value(mv):
        v = mv.as_long()
    else:
        if mv.denominator_as_long() != 1:
            raise Abort('non-integer index')
        v = mv.numerator_as_long()
    # fork only if another value is feasible
    if C.check(*[e != w for w in excl + (v,)]) != 'unsat':
        p.forks.append(p.dec[:p.pos] + [('c?', excl + (v,))])
    C._slot(('c', v), e == v)
    return v


def lazy_product(a, b):
    """a * b; when both factors are non-constant the product is a fresh variable
    whose definition is a lazy axiom, so that path conditions stay linear"""
    a = z3.simplify(a)
    b = z3.simplify(b)
    if z3.is_rational_value(a) or z3.is_int_value(a) or z3.is_rational_value(b) or z3.is_int_value(b):
        return a * b
    tab = CTX.cur.notes.setdefault('prods', {})
    key = tuple(sorted((a.hash(), b.hash())))
    if key in tab and ((tab[key][0].eq(a) and tab[key][1].eq(b)) or (tab[key][0].eq(b) and tab[key][1].eq(a))):
        return tab[key][2]
    v = z3.Real(fresh_name('prod'))
    tab[key] = (a, b, v)
    lazy_axiom(v == _real(a) * _real(b))
    return v


def lazy_axiom(c):
    """A fact that is true but expensive for the solver (e.g. the nonlinear
    definition q * d == n of a quotient).  It is kept aside and only added when
    a claim cannot be proved, or a model is wanted, without it: sound, because
    a claim valid without the fact is valid with it."""
    CTX.cur.notes.setdefault('lazy_ax', []).append(c)


def _lazy():
    return list(CTX.cur.notes.get('lazy_ax', ()))


def prove(claim, what='property', robust=()):
    """Check that claim holds under the current path condition.
    Returns None if it holds, otherwise the z3 model (counterexample).
    robust: extra constraints that keep a counterexample away from knife edges (the real code runs
    in floats); they are only used to pick a better model, never to decide the claim."""
    if isinstance(claim, SB):
        claim = claim.e
    if isinstance(claim, bool):
        if claim:
            return None
        neg = []
    else:
        neg = [z3.Not(claim)]
    r = CTX.check(*neg)
    if r == 'unsat':
        return None
    if r == 'sat' and robust and not _lazy():
        m0 = CTX.model()
        if CTX.check(*(neg + list(robust)), timeout_ms=10000) == 'sat':
            return CTX.model()
        return m0
    lz = _lazy()
    if lz:
        if r == 'sat':
            # cheap attempt: complete the model of the linear abstraction to a model of the definitions
            sm = _reconstruct(CTX.model(), neg)
            if sm is not None:
                return sm
        # first only the definitions of variables that occur in the claim, then all of them
        if neg:
            ids = _var_ids(neg[0])
            rel = [a for a in lz if _var_ids(a.arg(0)) & ids]
            if rel and len(rel) < len(lz):
                if CTX.check(*(neg + rel)) == 'unsat':
                    return None
        r = CTX.check(*(neg + lz))
        if r == 'unsat':
            return None
    if r == 'sat':
        return CTX.model()
    raise Inconclusive(what)


def _var_ids(e):
    seen, out, todo = set(), set(), [e]
    while todo:
        x = todo.pop()
        if x.get_id() in seen:
            continue
        seen.add(x.get_id())
        if z3.is_const(x) and x.decl().kind() == z3.Z3_OP_UNINTERPRETED:
            out.add(x.get_id())
        todo.extend(x.children())
    return out


def _reconstruct(m, extra=()):
    try:
        from . import logp
        return logp.reconstruct(m, extra)
    except z3.Z3Exception:
        return None


def feasible():
    r = CTX.check()
    return r != 'unsat'


def current_model(extra=(), timeout_ms=4000):
    """a model of the path condition (including the lazy axioms); None when the
    solver does not produce one quickly -- witnesses are optional"""
    lz = _lazy()
    r = CTX.check(*extra, timeout_ms=timeout_ms)
    if r != 'sat':
        return None
    m = CTX.model()
    if not lz:
        return m
    sm = _reconstruct(m, extra)
    if sm is not None:
        return sm
    if not CTX.cur.notes.get('nonlinear_witness'):
        return None
    r = CTX.check(*(list(extra) + lz), timeout_ms=timeout_ms)
    if r == 'sat':
        return CTX.model()
    return None


def explore(fn, root=(), ctx_=None, max_paths=None):
    """Run fn() over every feasible path below the decision prefix `root`.
    Yields (path, result, exception)."""
    C = ctx_ or CTX
    todo = [list(root)]
    n = 0
    while todo:
        prefix = todo.pop()
        p = C.begin_path(prefix)
        try:
            res = fn()
            exc = None
        except Abort:
            todo.extend(p.forks)
            continue
        except Exception as e:  # repo code raised: a result like any other
            if isinstance(e, NotImplementedError) and _raised_in_shim(e):
                raise            # a gap of the facade, not behaviour of the repo: harness error
            res = None
            exc = e
        todo.extend(p.forks)
        n += 1
        yield p, res, exc
        if max_paths is not None and n >= max_paths:
            raise RuntimeError('path budget exceeded (%d)' % max_paths)


def _raised_in_shim(e):
    tb = e.__traceback__
    last = None
    while tb is not None:
        last = tb
        tb = tb.tb_next
    return last is not None and '/symx/' in last.tb_frame.f_code.co_filename


def split_prefixes(fn, target=64, ctx_=None, max_rounds=40):
    """Breadth-first expansion of the decision tree until at least `target`
    open prefixes exist (or the tree is exhausted).  Returns a list of
    prefixes whose subtrees partition the path space."""
    C = ctx_ or CTX
    frontier = [[]]
    leaves = []
    for _ in range(max_rounds):
        if len(frontier) + len(leaves) >= target or not frontier:
            break
        new = []
        for pre in frontier:
            p = C.begin_path(pre)
            p.notes['split'] = True
            try:
                fn()
                leaves.append(pre)
                new.extend(p.forks)
            except _SplitStop as s:
                new.extend(s.children)
            except Abort:
                new.extend(p.forks)
            except Exception:
                leaves.append(pre)
                new.extend(p.forks)
        frontier = new
    C.begin_path([])
    return leaves + frontier


class _SplitStop(BaseException):
    def __init__(self, children):
        self.children = children


# ---------------------------------------------------------------------------
# scalar wrappers
# ---------------------------------------------------------------------------

def _isnum(x):
    return isinstance(x, (int, float, fractions.Fraction)) and not isinstance(x, bool)


def zval(x):
    """python number -> z3 numeral"""
    if isinstance(x, bool):
        return z3.IntVal(1 if x else 0)
    if isinstance(x, int):
        return z3.IntVal(x)
    if isinstance(x, fractions.Fraction):
        return z3.RealVal(x)
    if isinstance(x, float):
        if x != x or x in (INF, -INF):
            raise ValueError('non-finite float in symbolic arithmetic')
        if x == int(x) and abs(x) < 2 ** 53:
            return z3.RealVal(int(x))
        return z3.RealVal(repr(x))
    raise TypeError(type(x))


def lift(x):
    """wrapper or python number -> z3 term"""
    if isinstance(x, S):
        return x.e
    if isinstance(x, SB):
        return z3.If(x.e, 1, 0) if not isinstance(x.e, bool) else z3.IntVal(int(x.e))
    if hasattr(x, '__sym_int__'):
        return x.__sym_int__()
    return zval(x)


def is_sym(x):
    return isinstance(x, (S, SB, XR))


def _real(e):
    return z3.ToReal(e) if e.sort() == z3.IntSort() else e


class SB:
    """symbolic bool; bool() forks"""
    __slots__ = ('e', '_val')
    __array_priority__ = 1000

    def __init__(self, e):
        self.e = e
        self._val = None

    def __bool__(self):
        return branch(self.e)

    def __and__(self, o):
        if isinstance(o, bool):
            return self if o else False
        if isinstance(o, SB):
            return SB(z3.And(self.e, o.e))
        return NotImplemented
    __rand__ = __and__

    def __or__(self, o):
        if isinstance(o, bool):
            return True if o else self
        if isinstance(o, SB):
            return SB(z3.Or(self.e, o.e))
        return NotImplemented
    __ror__ = __or__

    def __invert__(self):
        return SB(z3.Not(self.e))

    def __xor__(self, o):
        if isinstance(o, bool):
            return ~self if o else self
        return SB(z3.Xor(self.e, o.e))
    __rxor__ = __xor__

    # arithmetic on bools (numpy semantics: True == 1)
    def _num(self):
        return S(z3.If(self.e, z3.IntVal(1), z3.IntVal(0)))

    def __mul__(self, o):
        if _isnum(o):
            if o == 0:
                return 0
            return S(z3.If(self.e, zval(o), zval(0 if isinstance(o, int) else 0.0)))
        return self._num() * o
    __rmul__ = __mul__

    def __add__(self, o):
        return self._num() + o
    __radd__ = __add__

    def __sub__(self, o):
        return self._num() - o

    def __rsub__(self, o):
        return o - self._num()

    def __eq__(self, o):
        if isinstance(o, bool):
            return self if o else ~self
        if isinstance(o, SB):
            return SB(self.e == o.e)
        return self._num() == o

    def __ne__(self, o):
        r = self.__eq__(o)
        return ~r if isinstance(r, SB) else (not r)

    def __hash__(self):
        return 0

    def __index__(self):
        return 1 if branch(self.e) else 0

    def __repr__(self):
        return 'SB#%d' % (self.e.hash() if not isinstance(self.e, bool) else int(self.e),)


def mkb(e):
    if isinstance(e, bool):
        return e
    return SB(e)


def b_and(*xs):
    es = []
    for x in xs:
        if isinstance(x, SB):
            x = x.e
        if isinstance(x, bool):
            if not x:
                return False
            continue
        es.append(x)
    if not es:
        return True
    return SB(z3.And(*es)) if len(es) > 1 else SB(es[0])


def b_or(*xs):
    es = []
    for x in xs:
        if isinstance(x, SB):
            x = x.e
        if isinstance(x, bool):
            if x:
                return True
            continue
        es.append(x)
    if not es:
        return False
    return SB(z3.Or(*es)) if len(es) > 1 else SB(es[0])


def b_not(x):
    if isinstance(x, bool):
        return not x
    return ~x


def zb(x):
    """bool-ish -> z3 Bool"""
    if isinstance(x, SB):
        x = x.e
    if isinstance(x, bool):
        return z3.BoolVal(x)
    return x


class S:
    """symbolic Int or Real scalar (mathematical; floats are reals)"""
    __slots__ = ('e', 'py')
    __array_priority__ = 1000

    def __init__(self, e, py=False):
        self.e = e
        self.py = py          # a plain Python number (float()/int() result) rather than a numpy scalar: x / 0 raises

    def _pyres(self, o):
        return self.py and (_isnum(o) or (isinstance(o, S) and o.py))

    @property
    def is_int(self):
        return self.e.sort() == z3.IntSort()

    def _other(self, o):
        """-> z3 term, or NotImplemented, or the floats +-inf / nan"""
        if isinstance(o, S):
            return o.e
        if isinstance(o, SB):
            return lift(o)
        if isinstance(o, bool):
            return z3.IntVal(int(o))
        if isinstance(o, (int, fractions.Fraction)):
            return zval(o)
        if isinstance(o, float):
            if o in (INF, -INF) or o != o:
                return o
            return zval(o)
        if hasattr(o, '__sym_int__'):
            return o.__sym_int__()
        return NotImplemented

    def __add__(self, o):
        b = self._other(o)
        if b is NotImplemented:
            return b
        if isinstance(b, float):
            return b
        return S(self.e + b, self._pyres(o))
    __radd__ = __add__

    def __sub__(self, o):
        b = self._other(o)
        if b is NotImplemented:
            return b
        if isinstance(b, float):
            return -b
        return S(self.e - b, self._pyres(o))

    def __rsub__(self, o):
        b = self._other(o)
        if b is NotImplemented:
            return b
        if isinstance(b, float):
            return b
        return S(b - self.e, self._pyres(o))

    def __mul__(self, o):
        if _isnum(o) and o == 0 and not isinstance(o, float):
            return 0
        b = self._other(o)
        if b is NotImplemented:
            return b
        if isinstance(b, float):
            # x * inf: sign dependent
            if b != b:
                return b
            return ite(self > 0, b, ite(self < 0, -b, float('nan')))
        if CTX is not None and getattr(CTX, 'lazy_products', False):
            return S(lazy_product(self.e, b), self._pyres(o))
        return S(self.e * b, self._pyres(o))
    __rmul__ = __mul__

    def __truediv__(self, o):
        b = self._other(o)
        if b is NotImplemented:
            return b
        if isinstance(b, float):
            return 0.0
        if CTX is not None and getattr(CTX, 'div_mode', None) == 'numpy':
            bs = z3.simplify(b)
            if not ((z3.is_rational_value(bs) or z3.is_int_value(bs)) and bs.as_fraction() != 0):
                if branch(b == 0):
                    if self._pyres(o):
                        raise ZeroDivisionError('float division by zero')
                    # numpy scalar semantics: warning, then +-inf / nan
                    if branch(self.e > 0):
                        return INF
                    if branch(self.e < 0):
                        return -INF
                    return float('nan')
        if CTX is not None and getattr(CTX, 'lazy_quotients', False):
            from . import logp as _logp
            if _logp.is_pos(b):
                return S(_logp.quotient(_real(self.e), _real(b)), self._pyres(o))
        return S(_real(self.e) / _real(b), self._pyres(o))

    def __rtruediv__(self, o):
        b = self._other(o)
        if b is NotImplemented:
            return b
        if isinstance(b, float):
            return ite(self > 0, b, -b)
        return S(_real(b) / _real(self.e))

    def __floordiv__(self, o):
        b = self._other(o)
        if b is NotImplemented:
            return b
        return _floordiv(self.e, b, o)

    def __rfloordiv__(self, o):
        b = self._other(o)
        if b is NotImplemented:
            return b
        return _floordiv(b, self.e, self)

    def __mod__(self, o):
        b = self._other(o)
        if b is NotImplemented:
            return b
        q = _floordiv(self.e, b, o)
        return self - q * o

    def __rmod__(self, o):
        b = self._other(o)
        q = _floordiv(b, self.e, self)
        return o - q * self

    def __neg__(self):
        return S(-self.e, self.py)

    def __pos__(self):
        return self

    def __abs__(self):
        return S(z3.If(self.e >= 0, self.e, -self.e), self.py)

    def __pow__(self, o):
        if isinstance(o, int) and 0 <= o <= 4:
            r = 1
            for _ in range(o):
                r = self * r
            return r
        if o == 0.5:
            return ssqrt(self)
        raise NotImplementedError('S ** %r' % (o,))

    def _cmp(self, o, f, inf_res):
        b = self._other(o)
        if b is NotImplemented:
            return b
        if isinstance(b, float):
            if b != b:
                return False
            return inf_res[0] if b == INF else inf_res[1]
        return SB(f(self.e, b))

    def __lt__(self, o):
        return self._cmp(o, lambda a, b: a < b, (True, False))

    def __le__(self, o):
        return self._cmp(o, lambda a, b: a <= b, (True, False))

    def __gt__(self, o):
        return self._cmp(o, lambda a, b: a > b, (False, True))

    def __ge__(self, o):
        return self._cmp(o, lambda a, b: a >= b, (False, True))

    def __eq__(self, o):
        if o is None or isinstance(o, str):
            return False
        r = self._cmp(o, lambda a, b: a == b, (False, False))
        return False if r is NotImplemented else r

    def __ne__(self, o):
        if o is None or isinstance(o, str):
            return True
        r = self._cmp(o, lambda a, b: a != b, (True, True))
        return True if r is NotImplemented else r

    def __hash__(self):
        return 0

    def __bool__(self):
        return branch(self.e != 0)

    def __index__(self):
        return concretize(self.e)

    def __repr__(self):
        # cheap on purpose: repo code formats values into exception messages
        return 'S#%d' % (self.e.hash(),)

    __str__ = __repr__

    def __format__(self, spec):
        return 'S#%d' % (self.e.hash(),)

    # numpy-scalar look-alikes
    def item(self):
        return self

    def astype(self, t):
        return self

    @property
    def shape(self):
        return ()

    @property
    def ndim(self):
        return 0


def _floordiv(a, b, b_orig):
    """python // on z3 terms a, b"""
    a_int = a.sort() == z3.IntSort()
    b_int = b.sort() == z3.IntSort()
    if a_int and b_int:
        bs = z3.simplify(b)
        if z3.is_int_value(bs) and bs.as_long() > 0:
            return S(a / b)
        return S(z3.If(b > 0, a / b, (-a) / (-b)))
    q = _real(a) / _real(b)
    return S(z3.ToReal(z3.ToInt(q)))


def ssqrt(x):
    """sqrt as a fresh non-negative real with r*r == x (assumed)"""
    if _isnum(x):
        return math.sqrt(x)
    r = z3.Real(fresh_name('sqrt'))
    assume(z3.And(r >= 0, r * r == _real(x.e)))
    return S(r)


def ite(c, a, b):
    if isinstance(c, SB):
        c = c.e
    if isinstance(c, bool):
        return a if c else b
    if isinstance(a, XR) or isinstance(b, XR) or (isinstance(a, float) and abs(a) == INF) or (isinstance(b, float) and abs(b) == INF):
        a = XR.of(a)
        b = XR.of(b)
        return XR(_zite(c, a.inf, b.inf), z3.If(c, a.v, b.v))
    if isinstance(a, SB) or isinstance(b, SB) or isinstance(a, bool) and isinstance(b, bool):
        return SB(z3.If(c, zb(a), zb(b)))
    if hasattr(a, '__ite__'):
        return a.__ite__(c, b, True)
    if hasattr(b, '__ite__'):
        return b.__ite__(c, a, False)
    if a is b:
        return a
    ea = lift(a)
    eb = lift(b)
    if ea.sort() != eb.sort():
        ea = _real(ea)
        eb = _real(eb)
    return S(z3.If(c, ea, eb), (isinstance(a, S) and a.py or _isnum(a)) and (isinstance(b, S) and b.py or _isnum(b)))


def _zite(c, a, b):
    if isinstance(a, bool) and isinstance(b, bool):
        if a == b:
            return a
        return c if a else z3.Not(c)
    return z3.If(c, zb(a), zb(b))


def smax2(a, b):
    if not is_sym(a) and not is_sym(b) and not hasattr(a, '__ite__') and not hasattr(b, '__ite__'):
        return a if a >= b else b
    return ite(a >= b, a, b)


def smin2(a, b):
    if not is_sym(a) and not is_sym(b) and not hasattr(a, '__ite__') and not hasattr(b, '__ite__'):
        return a if a <= b else b
    return ite(a <= b, a, b)


def smax(l):
    m = l[0]
    for x in l[1:]:
        m = smax2(m, x)
    return m


def smin(l):
    m = l[0]
    for x in l[1:]:
        m = smin2(m, x)
    return m


def sargmax(l):
    """first maximal index (numpy semantics), as ITE chain"""
    m = l[0]
    k = 0
    for i, x in enumerate(l[1:], 1):
        c = x > m
        m = ite(c, x, m)
        k = ite(c, i, k)
    return k


def sargmin(l):
    m = l[0]
    k = 0
    for i, x in enumerate(l[1:], 1):
        c = x < m
        m = ite(c, x, m)
        k = ite(c, i, k)
    return k


def sabs(x):
    if is_sym(x):
        return abs(x)
    return abs(x)


def sfloor(x):
    if isinstance(x, S):
        if x.is_int:
            return x
        return S(z3.ToInt(x.e))
    return math.floor(x)


def sceil(x):
    if isinstance(x, S):
        if x.is_int:
            return x
        return S(-z3.ToInt(-x.e))
    return math.ceil(x)


def strunc(x):
    """python int(x)"""
    if isinstance(x, S):
        if x.is_int:
            return x
        return S(z3.If(x.e >= 0, z3.ToInt(x.e), -z3.ToInt(-x.e)))
    if isinstance(x, SB):
        return x._num()
    return int(x)


def sround(x):
    """round half to even -> Int"""
    if isinstance(x, S):
        if x.is_int:
            return x
        f = z3.ToInt(x.e)
        fr = x.e - z3.ToReal(f)
        half = z3.RealVal('1/2')
        return S(z3.If(fr < half, f, z3.If(fr > half, f + 1, z3.If(f % 2 == 0, f, f + 1))))
    return round(x)


def sfloat(x):
    if isinstance(x, S):
        return S(_real(x.e), True)
    if isinstance(x, (XR,)):
        return x
    return float(x)


# ---------------------------------------------------------------------------
# extended reals (value or +inf), used for Viterbi costs
# ---------------------------------------------------------------------------

class XR:
    """extended real: +inf flag (z3 Bool or python bool) and a finite value"""
    __slots__ = ('inf', 'v')
    __array_priority__ = 1000

    def __init__(self, inf, v):
        self.inf = inf
        self.v = v

    @staticmethod
    def of(x):
        if isinstance(x, XR):
            return x
        if isinstance(x, float) and x == INF:
            return XR(True, z3.RealVal(0))
        if isinstance(x, S):
            return XR(False, _real(x.e))
        return XR(False, _real(zval(x)))

    def _infz(self):
        return zb(self.inf)

    def __add__(self, o):
        o = XR.of(o)
        if isinstance(self.inf, bool) and isinstance(o.inf, bool):
            i = self.inf or o.inf
        else:
            i = z3.Or(zb(self.inf), zb(o.inf))
        return XR(i, self.v + o.v)
    __radd__ = __add__

    def __neg__(self):
        raise NotImplementedError('-XR')

    def __lt__(self, o):
        o = XR.of(o)
        return b_and(b_not(mkb(self.inf)), b_or(mkb(o.inf), SB(self.v < o.v)))

    def __gt__(self, o):
        return XR.of(o).__lt__(self)

    def __le__(self, o):
        return b_not(XR.of(o).__lt__(self))

    def __ge__(self, o):
        return b_not(self.__lt__(o))

    def __eq__(self, o):
        if o is None:
            return False
        o = XR.of(o)
        return b_or(b_and(mkb(self.inf), mkb(o.inf)),
                    b_and(b_not(mkb(self.inf)), b_not(mkb(o.inf)), SB(self.v == o.v)))

    def __ne__(self, o):
        return b_not(self.__eq__(o))

    def __hash__(self):
        return 0

    def __repr__(self):
        return 'XR#%d' % (self.v.hash(),)


# ---------------------------------------------------------------------------
# characters / opaque tokens
# ---------------------------------------------------------------------------

class SChar:
    """symbol compared by equality only; Int code; constant hash so real
    dicts/sets keep working (collisions resolved by the forking __eq__)."""
    __slots__ = ('e', 'name')

    def __init__(self, e, name=None):
        self.e = e
        self.name = name

    def __sym_int__(self):
        return self.e

    def __eq__(self, o):
        if isinstance(o, SChar):
            if o is self:
                return True
            return bool(SB(self.e == o.e))
        return False

    def __ne__(self, o):
        return not self.__eq__(o)

    def eq(self, o):
        """non-forking equality"""
        if isinstance(o, SChar):
            return SB(self.e == o.e)
        return False

    def __hash__(self):
        return 7

    def __repr__(self):
        return 'SChar(%s)' % (self.name or self.e.hash(),)

    def __radd__(self, o):
        # '' + SChar (string building in the repo code)
        from .sstr import SStr
        if isinstance(o, str):
            return SStr(list(o) + [self])
        return NotImplemented


# ---------------------------------------------------------------------------
# uninterpreted monotone exp (Mono domain)
# ---------------------------------------------------------------------------

_EXPF = z3.Function('uexp', z3.RealSort(), z3.RealSort())


def uexp(x):
    """exp as an uninterpreted, positive, strictly increasing function.
    Monotonicity is instantiated pairwise over the exp terms created on the
    current path (an over-approximation of exp: 'holds' is sound, a model may
    be spurious and is filtered by replay)."""
    if _isnum(x):
        return math.exp(x)
    p = CTX.cur
    xe = z3.simplify(_real(x.e))
    if z3.is_rational_value(xe):
        fr = xe.as_fraction()
        return 1.0 if fr == 0 else math.exp(float(fr))
    t = _EXPF(xe)
    seen = p.notes.setdefault('exps', [])
    ax = [t > 0]
    for (a, ta) in seen:
        ax.append(z3.And(z3.Implies(a < xe, ta < t), z3.Implies(a > xe, ta > t)))
    axiom(z3.And(*ax))
    seen.append((xe, t))
    return S(t)


def model_value(m, e):
    """z3 model value -> python int / Fraction / bool"""
    if isinstance(e, (int, float, bool, fractions.Fraction, str)) or e is None:
        return e
    if isinstance(e, S):
        e = e.e
    if isinstance(e, SB):
        e = e.e
        if isinstance(e, bool):
            return e
    if isinstance(e, SChar):
        e = e.e
    v = m.eval(e, model_completion=True)
    if z3.is_bool(v):
        return z3.is_true(v)
    if z3.is_int_value(v):
        return v.as_long()
    if z3.is_rational_value(v):
        return fractions.Fraction(v.numerator_as_long(), v.denominator_as_long())
    if z3.is_algebraic_value(v):
        a = v.approx(20)
        return fractions.Fraction(a.numerator_as_long(), a.denominator_as_long())
    return str(v)


_FEXP = z3.Function('float_exp', z3.RealSort(), z3.RealSort())


def float_exp(x):
    """exp as FLOATS compute it: non-negative and only WEAKLY increasing (it saturates: underflow to 0, rounding to 1),
    an uninterpreted function with pairwise weak-monotonicity axioms.  Sound for float code; a counterexample has
    to be realised by the replayer with magnitudes at which float exp really saturates."""
    p = CTX.cur
    if isinstance(x, NXR):
        v = -x.x.v
        inf = x.x.inf
    elif isinstance(x, S):
        v, inf = _real(x.e), False
    else:
        return math.exp(x) if x != -INF else 0.0
    t = _FEXP(v)
    seen = p.notes.setdefault('fexps', [])
    ax = [t >= 0]
    for (a, ta) in seen:
        ax.append(z3.And(z3.Implies(a <= v, ta <= t), z3.Implies(a >= v, ta >= t)))
    axiom(z3.And(*ax))
    seen.append((v, t))
    if isinstance(inf, bool):
        return 0.0 if inf else S(t)
    return S(z3.If(inf, z3.RealVal(0), t))


class NXR:
    """negation of an extended real (value or -inf); only ordering is needed
    (align_text takes max / argmax of negated costs)."""
    __slots__ = ('x',)
    __array_priority__ = 1000

    def __init__(self, x):
        self.x = XR.of(x)

    def __exp__(self):
        return float_exp(self)

    @staticmethod
    def of(o):
        if isinstance(o, NXR):
            return o
        if isinstance(o, float) and o == -INF:
            return NXR(XR(True, z3.RealVal(0)))
        if isinstance(o, XR):
            raise TypeError('mixing XR and NXR')
        return NXR(XR.of(-o))

    def __neg__(self):
        return self.x

    def __lt__(self, o):
        return NXR.of(o).x.__lt__(self.x)

    def __gt__(self, o):
        return self.x.__lt__(NXR.of(o).x)

    def __le__(self, o):
        return b_not(self.__gt__(o))

    def __ge__(self, o):
        return b_not(self.__lt__(o))

    def __eq__(self, o):
        return self.x.__eq__(NXR.of(o).x)

    def __ne__(self, o):
        return b_not(self.__eq__(o))

    def __hash__(self):
        return 0

    def __ite__(self, c, other, self_is_then):
        o = NXR.of(other)
        a, b = (self.x, o.x) if self_is_then else (o.x, self.x)
        return NXR(XR(_zite(c, a.inf, b.inf), z3.If(c, a.v, b.v)))


def _xr_neg(self):
    return NXR(self)


XR.__neg__ = _xr_neg

"""symx.loader -- load modules of /repo from their *current source text* into
a namespace whose imports resolve to shim modules.

Nothing under /repo is edited or imported normally: every run reads the
files again, optionally applies in-memory source patches (canary mutants),
compiles and execs them.  The sha256 of every source text read is recorded
for the evidence file.
"""
import builtins
import hashlib
import importlib
import os
import sys
import types

from . import core
from . import symnp
from . import shims

REPO = os.environ.get('VERIF_REPO', '/repo')


class PatchError(Exception):
    pass


class Loader:
    def __init__(self, shim_map=None, patches=None, extra_builtins=None, real=(), repo=None):
        """shim_map: dotted module name -> module-like object
        patches: list of (relpath, old, new) source replacements (in memory)
        real: names of non-repo modules to import for real (default: stdlib only)"""
        self.repo = repo or REPO
        self.shim_map = dict(shims.default_shims())
        if shim_map:
            self.shim_map.update(shim_map)
        self.patches = list(patches or [])
        self.patch_hits = [0] * len(self.patches)
        self.modules = {}
        self.sources = {}        # relpath -> sha256
        self.real = set(real)
        self.bi = dict(vars(builtins))
        self.bi['__import__'] = self._import
        self.bi.update(shims.builtin_overrides())
        if extra_builtins:
            self.bi.update(extra_builtins)

    # -- file lookup --------------------------------------------------------
    def _path(self, name):
        rel = name.replace('.', '/')
        for cand in (rel + '.py', rel + '/__init__.py'):
            p = os.path.join(self.repo, cand)
            if os.path.isfile(p):
                return p, cand, cand.endswith('__init__.py')
        return None, None, False

    def _is_repo(self, name):
        top = name.split('.')[0]
        return top in ('pero_ocr', 'user_scripts') or self._path(name)[0] is not None and top in ('pero_ocr', 'user_scripts')

    def source(self, name):
        path, rel, _ = self._path(name)
        if path is None:
            raise ImportError('no repo module %s' % name)
        with open(path, encoding='utf8') as f:
            src = f.read()
        self.sources[rel] = hashlib.sha256(src.encode('utf8')).hexdigest()
        for i, (prel, old, new) in enumerate(self.patches):
            if prel == rel:
                if old not in src:
                    raise PatchError('patch %d: text not found in %s: %r' % (i, rel, old[:60]))
                src = src.replace(old, new)
                self.patch_hits[i] += 1
        return src, path, rel

    def load(self, name):
        if name in self.modules:
            return self.modules[name]
        if name in self.shim_map:
            return self.shim_map[name]
        path, rel, is_pkg = self._path(name)
        if path is None:
            d = os.path.join(self.repo, name.replace('.', '/'))
            if os.path.isdir(d):      # namespace package (user_scripts has no __init__.py)
                mod = types.ModuleType(name)
                mod.__path__ = [d]
                mod.__package__ = name
                self.modules[name] = mod
                return mod
            raise ImportError('no repo module %s' % name)
        # parents first
        if '.' in name:
            parent = self.load(name.rsplit('.', 1)[0])
        else:
            parent = None
        src, path, rel = self.source(name)
        mod = types.ModuleType(name)
        mod.__file__ = path
        mod.__package__ = name if is_pkg else name.rpartition('.')[0]
        if is_pkg:
            mod.__path__ = [os.path.dirname(path)]
        mod.__dict__['__builtins__'] = self.bi
        self.modules[name] = mod
        code = compile(src, path, 'exec')
        try:
            exec(code, mod.__dict__)
        except BaseException:
            del self.modules[name]
            raise
        if parent is not None:
            setattr(parent, name.rsplit('.', 1)[1], mod)
        return mod

    # -- import hook --------------------------------------------------------
    def _resolve(self, name):
        """module object for dotted name (shim, repo, or real)"""
        if name in self.shim_map:
            return self.shim_map[name]
        top = name.split('.')[0]
        if top in ('pero_ocr', 'user_scripts'):
            return self.load(name)
        if top in self.shim_map:
            # attribute path inside a shim
            obj = self.shim_map[top]
            for part in name.split('.')[1:]:
                obj = getattr(obj, part)
            return obj
        if top in self.real or top in _STDLIB_OK:
            return importlib.import_module(name)
        raise ImportError('symx loader: module %r is neither shimmed nor allowed (add a shim)' % name)

    def _import(self, name, globals=None, locals=None, fromlist=(), level=0):
        if level > 0:
            pkg = globals.get('__package__') or ''
            parts = pkg.split('.')
            if level > 1:
                parts = parts[:-(level - 1)]
            base = '.'.join(parts)
            name = base + ('.' + name if name else '')
        mod = self._resolve(name)
        if fromlist:
            for f in fromlist:
                if f == '*':
                    continue
                if not hasattr(mod, f):
                    # maybe a submodule
                    try:
                        sub = self._resolve(name + '.' + f)
                        try:
                            setattr(mod, f, sub)
                        except Exception:
                            pass
                    except ImportError:
                        pass
            return mod
        # "import a.b.c" binds a
        top = name.split('.')[0]
        if top != name:
            self._resolve(name)
            return self._resolve(top)
        return mod

    def unused_patches(self):
        return [self.patches[i] for i, h in enumerate(self.patch_hits) if h == 0]


_STDLIB_OK = {
    'typing', 'collections', 'enum', 'itertools', 'functools', 'copy', 're', 'json', 'logging', 'sys',
    'argparse', 'configparser', 'abc', 'dataclasses', 'io', 'string', 'unicodedata', 'operator', 'warnings',
    'traceback', 'uuid', 'datetime', 'time', 'multiprocessing', 'subprocess', 'shutil', 'glob', 'pathlib',
    '__future__', 'types', 'numbers', 'heapq', 'bisect', 'random', 'tempfile', 'zipfile', 'struct', 'contextlib',
    'importlib', 'os', 'pickle', 'math', 'unittest', 'textwrap', 'locale', 'codecs', 'statistics', 'gc',
}

"""symx.logp -- the LogP value domain: a log-probability (or any log-weight)
is stored as the weight p >= 0 itself (a z3 Real), so that

    a + b          ->  p_a * p_b          (log of a product)
    logaddexp(a,b) ->  p_a + p_b
    a - b          ->  p_a / p_b
    exp(a)         ->  p_a   (an ordinary symbolic real, core.S)
    -inf           ->  p = 0 (syntactic zero flag)
    a < b          ->  p_a < p_b           (log is strictly increasing)

This is the exact isomorphism between the log semiring and the probability
semiring; CTC recurrences become polynomials.  NLP is the negation (a cost
-log p, +inf when p = 0) used where the code negates log-probabilities.
Python float constants c other than 0 / -inf enter as a symbolic real
constrained to a tight interval around e^c.
"""
import fractions
import math
import z3

from . import core
from .core import S, SB, INF, mkb, b_not

_ZERO = z3.RealVal(0)
_ONE = z3.RealVal(1)


def expc(c):
    """z3 Real standing for e^c, c a python number"""
    if c == 0:
        return _ONE
    p = core.cur()
    if p.notes.get('guide') is not None:
        return z3.RealVal(fractions.Fraction(math.exp(float(c))))
    tab = p.notes.setdefault('expc', {})
    key = float(c)
    if key not in tab:
        t = z3.Real('expc(%r)' % key)
        mant, ex = math.frexp(math.exp(key))          # value = mant * 2**ex, 0.5 <= mant < 1
        mi = int(mant * (1 << 53))
        lo = fractions.Fraction(mi - (1 << 13), 1 << 53) * fractions.Fraction(2) ** ex
        hi = fractions.Fraction(mi + (1 << 13), 1 << 53) * fractions.Fraction(2) ** ex
        core.axiom(z3.And(t > z3.RealVal(lo), t < z3.RealVal(hi)))
        tab[key] = t
    return tab[key]


def _isnum(x):
    return isinstance(x, (int, float, fractions.Fraction)) and not isinstance(x, bool)


# ---------------------------------------------------------------------------
# quotients: n / d is a fresh variable q with linear facts only (q > 0, the
# quotients sharing a denominator that adds up to their numerators sum to 1);
# the nonlinear definition q * d == n is a lazy axiom (core.lazy_axiom).
# Two quotients that are equal by cross-multiplication (a syntactic polynomial
# identity) are the SAME variable, so normalising lambda*w gives the terms
# that normalising w gave.
# ---------------------------------------------------------------------------

def declare_pos(*vs):
    """register z3 variables known to be > 0 (the harness has assumed it)"""
    s = core.cur().notes.setdefault('posvars', set())
    for v in vs:
        s.add(v.decl().name())


def is_pos(e):
    """syntactic: e > 0 follows from the declared positive variables"""
    if z3.is_rational_value(e) or z3.is_int_value(e):
        return e.as_fraction() > 0
    if e.decl().kind() == z3.Z3_OP_UNINTERPRETED and e.decl().name() == 'uexp':
        return True
    if z3.is_const(e) and e.decl().kind() == z3.Z3_OP_UNINTERPRETED:
        n = e.decl().name()
        return n.startswith('expc(') or n in core.cur().notes.get('posvars', ())
    k = e.decl().kind()
    if k in (z3.Z3_OP_ADD, z3.Z3_OP_MUL, z3.Z3_OP_DIV):
        return all(is_pos(c) for c in e.children())
    if k == z3.Z3_OP_ITE:
        return is_pos(e.arg(1)) and is_pos(e.arg(2))
    if k == z3.Z3_OP_TO_REAL:
        return is_pos(e.arg(0))
    return False


def _poly_zero(e):
    e = z3.simplify(e, som=True)
    return (z3.is_rational_value(e) or z3.is_int_value(e)) and e.as_fraction() == 0


def poly_terms(e):
    """sum-of-monomials normal form of a polynomial term: list of (coefficient Fraction, monomial key)"""
    e = z3.simplify(e, som=True)
    terms = list(e.children()) if z3.is_add(e) else [e]
    out = []
    for t in terms:
        c = fractions.Fraction(1)
        mono = []
        fs = list(t.children()) if z3.is_mul(t) else [t]
        for f in fs:
            if z3.is_rational_value(f) or z3.is_int_value(f):
                c *= f.as_fraction()
            else:
                mono.append(f.sexpr())
        out.append((c, tuple(sorted(mono))))
    return out


def poly_nonneg(e):
    """True when every coefficient of the expanded polynomial is >= 0 (hence e >= 0 for non-negative variables)"""
    return all(c >= 0 for c, _ in poly_terms(e))


def _expand(e, depth=0):
    """e as a fraction (num, den) of polynomials over the input variables: quotient variables are replaced by their
    definitions (recursively); sums over a common denominator keep it"""
    if depth > 6:
        return e, _ONE
    if z3.is_rational_value(e) or z3.is_int_value(e):
        return e, _ONE
    if z3.is_const(e) and e.decl().kind() == z3.Z3_OP_UNINTERPRETED:
        df = definition(e)
        if df is None:
            return e, _ONE
        n1, d1 = _expand(df[0], depth + 1)
        n2, d2 = _expand(df[1], depth + 1)
        return n1 * d2, d1 * n2
    k = e.decl().kind()
    if k == z3.Z3_OP_ADD:
        parts = [_expand(c, depth) for c in e.children()]
        d0 = parts[0][1]
        if all(p_[1].eq(d0) or _poly_zero(p_[1] - d0) for p_ in parts):
            return sum(p_[0] for p_ in parts), d0
        num, den = parts[0]
        for n_, d_ in parts[1:]:
            num, den = num * d_ + n_ * den, den * d_
        return num, den
    if k == z3.Z3_OP_MUL:
        num, den = _ONE, _ONE
        for c in e.children():
            n_, d_ = _expand(c, depth)
            num, den = num * n_, den * d_
        return num, den
    if k == z3.Z3_OP_TO_REAL:
        return _expand(e.arg(0), depth)
    return e, _ONE


def quotient(n, d):
    """z3 Real standing for n / d (d > 0 syntactically required)"""
    if not is_pos(d):
        raise NotImplementedError('division by a log-weight that is not known to be positive')
    p = core.cur()
    table = p.notes.setdefault('fracs', [])
    if table:
        # express both over the input variables, so that e.g. (w_c / m) / sum_j (w_j / m) is recognised as w_c / sum_j w_j
        (nn, nd), (dn, dd) = _expand(n), _expand(d)
        if not (nd.eq(_ONE) and dd.eq(_ONE)):
            if nd.eq(dd) or _poly_zero(nd - dd):
                n, d = z3.simplify(nn), z3.simplify(dn)
            else:
                n, d = z3.simplify(nn * dd), z3.simplify(nd * dn)
    for (n0, d0, q0) in table:
        if (n0.eq(n) and d0.eq(d)) or _poly_zero(n * d0 - n0 * d):
            return q0
    q = z3.Real(core.fresh_name('q'))
    facts = [q > 0] if is_pos(n) else [z3.Implies(n > 0, q > 0), z3.Implies(n == 0, q == 0), z3.Implies(n < 0, q < 0)]
    if is_pos(n):
        declare_pos(q)
    table.append((n, d, q))
    core.lazy_axiom(q * d == n)
    # quotients over the same denominator whose numerators (with small multiplicities) add up to it sum to 1
    grp = [(n0, q0) for (n0, d0, q0) in table if d0.eq(d) or _poly_zero(d0 - d)]
    # same denominator: the order of the quotients is the order of the numerators
    for (n0, q0) in grp:
        if q0 is q:
            continue
        facts.append(z3.And(z3.Implies(n0 < n, q0 < q), z3.Implies(n0 > n, q0 > q), z3.Implies(n0 == n, q0 == q)))
    if len(grp) <= 4:
        import itertools
        for mult in itertools.product((1, 2, 3, 4), repeat=len(grp)):
            if _poly_zero(sum(m * n0 for m, (n0, _) in zip(mult, grp)) - d):
                facts.append(sum(m * q0 for m, (_, q0) in zip(mult, grp)) == 1)
                break
    core.axiom(z3.And(*facts))
    return q


def definition(q):
    """(numerator, denominator) of a quotient variable, or None"""
    for (n0, d0, q0) in core.cur().notes.get('fracs', ()):
        if q0.eq(q):
            return n0, d0
    return None


class LP:
    __slots__ = ('p', 'zero', 'nz')
    __array_priority__ = 1000

    def __init__(self, p, zero=False, nz=False):
        self.p = p
        self.zero = zero
        self.nz = nz          # known not to be the log-value 0.0 (a *stored* sparse entry: harness precondition)

    @staticmethod
    def of(x):
        if isinstance(x, LP):
            return x
        if _isnum(x):
            if x == -INF:
                return LP(_ZERO, True)
            if x == INF or x != x:
                raise ValueError('LP.of(%r)' % (x,))
            return LP(expc(x))
        if isinstance(x, NLP):
            raise TypeError('mixing LP and NLP')
        if isinstance(x, S):
            # an ordinary symbolic real used as a log-value: its weight is exp(x), exp being an
            # uninterpreted positive strictly increasing function (core.uexp)
            r = core.uexp(x)
            if isinstance(r, float):
                return LP(_ONE if r == 1.0 else z3.RealVal(fractions.Fraction(r)))
            return LP(r.e)
        raise TypeError('LP.of(%r)' % (type(x),))

    # log-domain arithmetic ---------------------------------------------------
    def __add__(self, o):
        if isinstance(o, Mono):
            return o.__radd__(self)
        if not isinstance(o, (LP, S)) and not _isnum(o):
            return NotImplemented
        if _isnum(o) and o == 0:
            return self
        o = LP.of(o)
        if self.zero or o.zero:
            return LP(_ZERO, True)
        return LP(self.p * o.p)
    __radd__ = __add__

    def __sub__(self, o):
        if not isinstance(o, (LP, S)) and not _isnum(o):
            return NotImplemented
        o = LP.of(o)
        if o.zero:
            raise ZeroDivisionError('LP - (-inf)')
        if self.zero:
            return LP(_ZERO, True)
        return LP(quotient(self.p, o.p))

    def __rsub__(self, o):
        return LP.of(o).__sub__(self)

    def __neg__(self):
        return NLP(self.p, self.zero)

    def __mul__(self, o):
        """log-value times a scale: leaves the polynomial domain -> Mono"""
        if _isnum(o):
            if o == 1:
                return self
            if o == 0:
                return LP(_ONE)
        return Mono.of(self) * o
    __rmul__ = __mul__

    def __logaddexp__(self, o):
        o = LP.of(o)
        if self.zero:
            return o
        if o.zero:
            return self
        return LP(self.p + o.p)

    def __exp__(self):
        if self.zero:
            return 0.0
        return S(self.p)

    def __isfinite__(self):
        if self.zero:
            return False
        if is_pos(self.p):
            return True
        return SB(self.p > 0)

    # comparisons ---------------------------------------------------------------
    def _cmp(self, o, f):
        if isinstance(o, Mono):
            return NotImplemented
        if not isinstance(o, (LP, S)) and not _isnum(o):
            return NotImplemented
        o = LP.of(o)
        return mkb(z3.simplify(f(self.p, o.p)))

    def __lt__(self, o):
        if _isnum(o) and o != o:
            return False
        if _isnum(o) and o == INF:
            return True
        return self._cmp(o, lambda a, b: a < b)

    def __le__(self, o):
        if _isnum(o) and o != o:
            return False
        if _isnum(o) and o == INF:
            return True
        return self._cmp(o, lambda a, b: a <= b)

    def __gt__(self, o):
        if _isnum(o) and o != o:
            return False
        if _isnum(o) and o == INF:
            return False
        return self._cmp(o, lambda a, b: a > b)

    def __ge__(self, o):
        if _isnum(o) and o != o:
            return False
        if _isnum(o) and o == INF:
            return False
        return self._cmp(o, lambda a, b: a >= b)

    def __eq__(self, o):
        if o is None or isinstance(o, str):
            return False
        if _isnum(o) and (o == INF or o != o):
            return False
        if _isnum(o) and o == 0 and self.nz:
            return False
        r = self._cmp(o, lambda a, b: a == b)
        return False if r is NotImplemented else r

    def __ne__(self, o):
        r = self.__eq__(o)
        return b_not(r)

    def __hash__(self):
        return 0

    def __ite__(self, c, other, self_is_then):
        o = LP.of(other)
        a, b = (self, o) if self_is_then else (o, self)
        return LP(z3.If(c, a.p, b.p), a.zero and b.zero)

    def __repr__(self):
        return 'LP#%d' % (self.p.hash(),)

    __str__ = __repr__

    def __format__(self, spec):
        return repr(self)

    def item(self):
        return self

    def astype(self, t):
        return self


class NLP:
    """cost = -log p ; +inf when p == 0"""
    __slots__ = ('p', 'zero')
    __array_priority__ = 1000

    def __init__(self, p, zero=False):
        self.p = p
        self.zero = zero

    @staticmethod
    def of(x):
        if isinstance(x, NLP):
            return x
        if _isnum(x):
            if x == INF:
                return NLP(_ZERO, True)
            if x == -INF or x != x:
                raise ValueError('NLP.of(%r)' % (x,))
            return NLP(expc(-x))
        raise TypeError('NLP.of(%r)' % (type(x),))

    def __add__(self, o):
        if not isinstance(o, NLP) and not _isnum(o):
            return NotImplemented
        o = NLP.of(o)
        if self.zero or o.zero:
            return NLP(_ZERO, True)
        return NLP(self.p * o.p)
    __radd__ = __add__

    def __neg__(self):
        return LP(self.p, self.zero)

    def _cmp(self, o, f):
        if not isinstance(o, NLP) and not _isnum(o):
            return NotImplemented
        o = NLP.of(o)
        return mkb(z3.simplify(f(self.p, o.p)))

    # cost a < cost b  <=>  p_a > p_b
    def __lt__(self, o):
        return self._cmp(o, lambda a, b: a > b)

    def __le__(self, o):
        return self._cmp(o, lambda a, b: a >= b)

    def __gt__(self, o):
        return self._cmp(o, lambda a, b: a < b)

    def __ge__(self, o):
        return self._cmp(o, lambda a, b: a <= b)

    def __eq__(self, o):
        if o is None or isinstance(o, str):
            return False
        r = self._cmp(o, lambda a, b: a == b)
        return False if r is NotImplemented else r

    def __ne__(self, o):
        return b_not(self.__eq__(o))

    def __hash__(self):
        return 0

    def __ite__(self, c, other, self_is_then):
        o = NLP.of(other)
        a, b = (self, o) if self_is_then else (o, self)
        return NLP(z3.If(c, a.p, b.p), a.zero and b.zero)

    def __isfinite__(self):
        if self.zero:
            return False
        return SB(self.p > 0)

    def __repr__(self):
        return 'NLP#%d' % (self.p.hash(),)

    __str__ = __repr__

    def __format__(self, spec):
        return repr(self)


# ---------------------------------------------------------------------------
# Mono: values that mix log-probabilities with scaled real log-scores
# (visual LogP + lm_scale * LM score).  value = log(p) + r, kept as the pair
# (p, r); ordering goes through an uninterpreted strictly increasing `ulog`.
# ---------------------------------------------------------------------------

_LOGF = z3.Function('ulog', z3.RealSort(), z3.RealSort())


def ulog(pe):
    """log as an uninterpreted strictly increasing function (pairwise
    monotonicity instantiated over the terms created on the current path);
    log(1) = 0 and log(a*b) = log a + log b are NOT assumed: over-approximation."""
    pe = z3.simplify(pe)
    p = core.cur()
    seen = p.notes.setdefault('ulogs', {})
    k = pe.hash()
    if k in seen and seen[k][0].eq(pe):
        return seen[k][1]
    t = _LOGF(pe)
    ax = []
    for (a, ta) in seen.values():
        ax.append(z3.And(z3.Implies(a < pe, ta < t), z3.Implies(a > pe, ta > t), z3.Implies(a == pe, ta == t)))
    if ax:
        core.axiom(z3.And(*ax))
    seen[k] = (pe, t)
    return t


class Mono:
    """log(p) + r with p a probability-domain term (or None for 'no log part') and r a real term"""
    __slots__ = ('p', 'r', 'zero')
    __array_priority__ = 1000

    def __init__(self, p, r, zero=False):
        self.p = p
        self.r = r
        self.zero = zero

    @staticmethod
    def of(x):
        if isinstance(x, Mono):
            return x
        if isinstance(x, LP):
            return Mono(x.p, _ZERO, x.zero)
        if isinstance(x, S):
            return Mono(None, core._real(x.e))
        if _isnum(x):
            if x == -INF:
                return Mono(None, _ZERO, True)
            return Mono(None, core._real(core.zval(x)))
        raise TypeError('Mono.of(%r)' % (type(x),))

    def val(self):
        if self.p is None:
            return self.r
        return ulog(self.p) + self.r

    def __add__(self, o):
        try:
            o = Mono.of(o)
        except TypeError:
            return NotImplemented
        if self.zero or o.zero:
            return Mono(None, _ZERO, True)
        if self.p is None:
            p = o.p
        elif o.p is None:
            p = self.p
        else:
            p = self.p * o.p
        return Mono(p, self.r + o.r)
    __radd__ = __add__

    def __sub__(self, o):
        o = Mono.of(o)
        if o.zero:
            raise ZeroDivisionError('Mono - (-inf)')
        if self.zero:
            return self
        if o.p is None:
            return Mono(self.p, self.r - o.r)
        if self.p is None:
            return Mono(1 / o.p, self.r - o.r)
        return Mono(self.p / o.p, self.r - o.r)

    def __mul__(self, o):
        if self.zero:
            return self
        if self.p is not None:
            raise NotImplementedError('scaling a value with a log-probability part')
        if isinstance(o, S):
            return Mono(None, self.r * core._real(o.e))
        if _isnum(o):
            return Mono(None, self.r * core.zval(o))
        return NotImplemented
    __rmul__ = __mul__

    def _cmp(self, o, f, if_self_zero, if_o_zero):
        try:
            o = Mono.of(o)
        except TypeError:
            return NotImplemented
        if self.zero and o.zero:
            return f(0, 0)
        if self.zero:
            return if_self_zero
        if o.zero:
            return if_o_zero
        if self.p is not None and o.p is not None and z3.simplify(self.r - o.r).eq(_ZERO):
            return mkb(z3.simplify(f(self.p, o.p)))
        return mkb(f(self.val(), o.val()))

    def __lt__(self, o):
        return self._cmp(o, lambda a, b: a < b, True, False)

    def __le__(self, o):
        return self._cmp(o, lambda a, b: a <= b, True, False)

    def __gt__(self, o):
        return self._cmp(o, lambda a, b: a > b, False, True)

    def __ge__(self, o):
        return self._cmp(o, lambda a, b: a >= b, False, True)

    def __eq__(self, o):
        if o is None:
            return False
        r = self._cmp(o, lambda a, b: a == b, False, False)
        return False if r is NotImplemented else r

    def __ne__(self, o):
        return b_not(self.__eq__(o))

    def __hash__(self):
        return 0

    def __isfinite__(self):
        return not self.zero

    def __ite__(self, c, other, self_is_then):
        raise NotImplementedError('ite on Mono values (rank by forking instead)')

    def __repr__(self):
        return 'Mono#%d' % (self.r.hash(),)


def lp_value(m, x):
    """model value of an LP/NLP as a python float log-value (for replay)"""
    if isinstance(x, (LP, NLP)):
        if x.zero:
            return '-inf' if isinstance(x, LP) else 'inf'
        v = core.model_value(m, x.p)
        return {'p': v}
    return core.model_value(m, x)


# ---------------------------------------------------------------------------
# consistent models without nonlinear solving: given a model of the *linear*
# abstraction, keep its quotient values q and solve the definitions n = q * d
# for the input variables that occur as numerators (w := q * d, with d fixed by
# a constant numerator of the same group, else d := 1).  The result is only
# used after every assertion of the path has been re-evaluated under it.
# ---------------------------------------------------------------------------

class SubstModel:
    def __init__(self, m, subs):
        self.m = m
        self.subs = subs

    def eval(self, e, model_completion=True):
        if self.subs:
            e = z3.substitute(e, *self.subs)
        return self.m.eval(e, model_completion=model_completion)


def _is_var(e):
    return z3.is_const(e) and e.decl().kind() == z3.Z3_OP_UNINTERPRETED


def reconstruct(m, extra=()):
    """-> SubstModel satisfying all assertions on the solver stack (and `extra`), or None"""
    p = core.cur()
    table = p.notes.get('fracs', [])
    if not table and not p.notes.get('prods'):
        return m
    groups = []
    for (n, d, q) in table:
        for g in groups:
            if g[0].eq(d) or _poly_zero(g[0] - d):
                g[1].append((n, q))
                break
        else:
            groups.append((d, [(n, q)]))
    subs = []
    assigned = {}
    for d, members in groups:
        dval = None
        for n, q in members:
            if not _is_var(n) or n.decl().name().startswith('expc('):
                qv = m.eval(q, model_completion=True)
                nv = m.eval(n, model_completion=True)
                if z3.is_rational_value(qv) and z3.is_rational_value(nv) and qv.as_fraction() != 0:
                    dval = nv.as_fraction() / qv.as_fraction()
                    break
        if dval is None:
            dval = fractions.Fraction(1)
            # avoid w == 1 exactly (a stored logit of exactly 0.0)
            dval = fractions.Fraction(3, 2)
        for n, q in members:
            if _is_var(n) and not n.decl().name().startswith('expc('):
                qv = m.eval(q, model_completion=True)
                if not z3.is_rational_value(qv):
                    return None
                val = qv.as_fraction() * dval
                k = n.decl().name()
                if k in assigned and assigned[k] != val:
                    return None
                assigned[k] = val
                subs.append((n, z3.RealVal(val)))
    sm = SubstModel(m, subs)
    # products and quotients are then recomputed from their definitions
    for lz in p.notes.get('lazy_ax', ()):
        # lz is  v == a*b  or  q*d == n : after substitution both sides must agree; recompute the defined variable
        pass
    full = list(subs)
    for (n, d, q) in table:
        nv = sm.eval(n)
        dv = sm.eval(d)
        if not (z3.is_rational_value(nv) and z3.is_rational_value(dv)) or dv.as_fraction() == 0:
            return None
        full.append((q, z3.RealVal(nv.as_fraction() / dv.as_fraction())))
        sm = SubstModel(m, full)
    for (a, b, v) in p.notes.get('prods', {}).values():
        av, bv = sm.eval(a), sm.eval(b)
        if not (z3.is_rational_value(av) and z3.is_rational_value(bv)):
            return None
        full.append((v, z3.RealVal(av.as_fraction() * bv.as_fraction())))
        sm = SubstModel(m, full)
    C = core.ctx()
    for a in list(C.solver.assertions()) + list(extra) + list(p.notes.get('lazy_ax', ())):
        if not z3.is_true(z3.simplify(sm.eval(a))):
            return None
    return sm

"""symx.symnp -- a small numpy-compatible facade over Python containers of
symbolic scalars (symx.core.S / SB / XR, symx.logp.LP, tokens ...).

Only the operations the encoded repo functions use are provided; anything
else raises NotImplementedError naming the operation, so a refactor of the
repo that reaches for a new numpy function fails loudly (exit 2) instead of
passing vacuously.
"""
import builtins
import itertools
import math
import z3

from . import core
from .core import S, SB, XR, SChar, ite, is_sym, INF

inf = float('inf')
nan = float('nan')
pi = math.pi
newaxis = None
e = math.e


class _DT:
    def __init__(self, name, conv=None):
        self.name = name
        self.conv = conv

    def __call__(self, x=0):
        if isinstance(x, (A, list, tuple)):
            return asarray(x, dtype=self)
        return _conv(x, self)

    def __repr__(self):
        return 'dtype(%s)' % self.name

    def __eq__(self, o):
        if isinstance(o, _DT):
            return self.name == o.name
        if o is int:
            return self.name.startswith('int')
        if o is float:
            return self.name.startswith('float')
        if o is bool:
            return self.name == 'bool'
        return False

    def __hash__(self):
        return hash(self.name)


int32 = _DT('int32')
int64 = _DT('int64')
int_ = int64
uint8 = _DT('uint8')
int16 = _DT('int16')
float32 = _DT('float32')
float64 = _DT('float64')
double = float64
bool_ = _DT('bool')
object_ = _DT('object')


def _dt(dtype):
    if dtype is None:
        return None
    if isinstance(dtype, _DT):
        return dtype
    if dtype is int or getattr(dtype, '_sym_builtin', None) == 'int':
        return int64
    if dtype is float or getattr(dtype, '_sym_builtin', None) == 'float':
        return float64
    if dtype is bool:
        return bool_
    if dtype is object:
        return object_
    if isinstance(dtype, str):
        return {'int': int64, 'float': float64, 'int32': int32, 'float32': float32, 'uint8': uint8,
                'bool': bool_, 'object': object_, 'float64': float64, 'int64': int64}[dtype]
    raise NotImplementedError('dtype %r' % (dtype,))


def _conv(x, dt):
    if dt is None:
        return x
    n = dt.name
    if n.startswith('int') or n.startswith('uint'):
        if isinstance(x, bool):
            return int(x)
        if isinstance(x, int):
            return x
        if isinstance(x, float):
            if x != x or builtins.abs(x) == INF:
                raise ValueError('cannot convert float NaN/inf to integer')
            return int(x)
        if isinstance(x, (S, SB)):
            return core.strunc(x)
        return x
    if n.startswith('float'):
        if isinstance(x, (bool, int)):
            return float(x)
        if isinstance(x, SB):
            return x._num()
        return x
    if n == 'bool':
        if isinstance(x, (bool, SB)):
            return x
        if isinstance(x, (int, float)):
            return bool(x)
        if isinstance(x, S):
            return x != 0
        return x
    return x


def _prod(sh):
    p = 1
    for s in sh:
        p *= s
    return p


def _strides(sh):
    st = []
    p = 1
    for s in reversed(sh):
        st.append(p)
        p *= s
    return tuple(reversed(st))


def _is_seq(x):
    return isinstance(x, (list, tuple, range))


def _shape_of(x):
    if isinstance(x, A):
        return x.shape
    if _is_seq(x):
        if len(x) == 0:
            return (0,)
        return (len(x),) + _shape_of(x[0])
    return ()


def _flat(x):
    if isinstance(x, A):
        return list(x.d)
    if _is_seq(x):
        out = []
        for el in x:
            out.extend(_flat(el))
        return out
    return [x]


def _bshape(*shapes):
    n = builtins.max(len(s) for s in shapes)
    out = [1] * n
    for s in shapes:
        s = (1,) * (n - len(s)) + tuple(s)
        for i, (x, y) in enumerate(zip(out, s)):
            if x == y or y == 1:
                continue
            if x == 1:
                out[i] = y
            else:
                raise ValueError('operands could not be broadcast together with shapes %s' % (shapes,))
    return tuple(out)


def _bcast(v, shape):
    """flat list of v broadcast to shape"""
    vs = _shape_of(v)
    shape = tuple(shape)
    if vs == ():
        if isinstance(v, A):
            v = v.d[0]
        return [v] * _prod(shape)
    d = _flat(v)
    if vs == shape:
        return d
    n = len(shape)
    if len(vs) > n:
        raise ValueError('cannot broadcast %s to %s' % (vs, shape))
    vs2 = (1,) * (n - len(vs)) + tuple(vs)
    for a, b in zip(vs2, shape):
        if a != b and a != 1:
            raise ValueError('could not broadcast input array from shape %s into shape %s' % (vs, shape))
    st = _strides(vs2)
    out = []
    for comb in itertools.product(*[range(k) for k in shape]):
        out.append(d[builtins.sum((c if vs2[i] != 1 else 0) * st[i] for i, c in enumerate(comb))])
    return out


def _eq(x, y):
    if isinstance(x, SChar) and isinstance(y, SChar):
        return x.eq(y)
    return x == y


def _ne(x, y):
    if isinstance(x, SChar) and isinstance(y, SChar):
        return core.b_not(x.eq(y))
    return x != y


def _concrete_bool(v):
    """bool-ish element -> python bool (forking on SB, cached per object)"""
    if isinstance(v, bool):
        return v
    if isinstance(v, SB):
        if v._val is None:
            v._val = bool(v)
        return v._val
    if isinstance(v, (int, float)):
        return bool(v)
    if isinstance(v, S):
        return bool(v)
    raise TypeError('not a boolean mask element: %r' % (v,))


def _to_index(v):
    if isinstance(v, bool):
        raise IndexError('bool used as index')
    if isinstance(v, int):
        return v
    if isinstance(v, float):
        raise IndexError('only integers, slices (`:`), ellipsis (`...`), numpy.newaxis (`None`) and integer or boolean arrays are valid indices')
    if isinstance(v, (S, SB)):
        return v.__index__()
    if hasattr(v, '__index__'):
        return v.__index__()
    raise IndexError('invalid index %r' % (v,))


def _is_boolish(v):
    return isinstance(v, (bool, SB))


SYMBOLIC_GATHER = True


def _ite_able(x):
    return isinstance(x, (int, float, S, SB, XR)) or hasattr(x, '__ite__')


class A:
    """ndarray look-alike: flat python list + shape"""
    __array_priority__ = 2000
    __hash__ = None

    def __init__(self, d, shape, dtype=None):
        self._d = list(d)
        self.shape = tuple(shape)
        self.dtype = dtype
        if len(self._d) != _prod(self.shape):
            raise ValueError('size mismatch %d vs shape %s' % (len(self._d), self.shape))

    # storage ---------------------------------------------------------------
    @property
    def d(self):
        return self._d

    def _set(self, i, v):
        self._d[i] = _conv(v, self.dtype) if self.dtype is not None else v

    def _root(self):
        return self, None

    @property
    def ndim(self):
        return len(self.shape)

    @property
    def size(self):
        return _prod(self.shape)

    @property
    def T(self):
        return self.transpose()

    def __len__(self):
        if not self.shape:
            raise TypeError('len() of unsized object')
        return self.shape[0]

    def __iter__(self):
        if not self.shape:
            raise TypeError('iteration over a 0-d array')
        for i in range(self.shape[0]):
            yield self[i]

    def __repr__(self):
        return 'A(%r, shape=%s)' % (self.tolist(), self.shape)

    def __bool__(self):
        if self.size != 1:
            raise ValueError('The truth value of an array with more than one element is ambiguous. Use a.any() or a.all()')
        return bool(self.d[0])

    def __index__(self):
        if self.size != 1:
            raise TypeError('only integer scalar arrays can be converted to a scalar index')
        return _to_index(self.d[0])

    def __int__(self):
        return int(self.d[0])

    def __float__(self):
        return float(self.d[0])

    def item(self):
        return self.d[0]

    def copy(self):
        return A(self.d, self.shape, self.dtype)

    def __copy__(self):
        return self.copy()

    def __deepcopy__(self, memo):
        import copy as _c
        return A([_c.deepcopy(x, memo) for x in self.d], self.shape, self.dtype)

    def tolist(self):
        if self.ndim == 0:
            return self.d[0]
        if self.ndim == 1:
            return list(self.d)
        return [self[i].tolist() for i in range(self.shape[0])]

    def astype(self, t, copy=True):
        dt = _dt(t)
        return A([_conv(x, dt) for x in self.d], self.shape, dt)

    def ravel(self):
        return A(self.d, (self.size,), self.dtype)

    flatten = ravel

    def reshape(self, *shape):
        if len(shape) == 1 and _is_seq(shape[0]):
            shape = tuple(shape[0])
        shape = list(shape)
        if -1 in shape:
            i = shape.index(-1)
            rest = _prod([s for s in shape if s != -1])
            shape[i] = self.size // rest if rest else 0
        return A(self.d, shape, self.dtype)

    def transpose(self, *axes):
        if len(axes) == 1 and _is_seq(axes[0]):
            axes = tuple(axes[0])
        if not axes:
            axes = tuple(reversed(range(self.ndim)))
        sh = tuple(self.shape[a] for a in axes)
        st = _strides(self.shape)
        d = self.d
        out = []
        for comb in itertools.product(*[range(k) for k in sh]):
            out.append(d[builtins.sum(c * st[a] for c, a in zip(comb, axes))])
        return A(out, sh, self.dtype)

    def squeeze(self, axis=None):
        if axis is None:
            sh = [s for s in self.shape if s != 1]
        else:
            sh = [s for i, s in enumerate(self.shape) if i != (axis % self.ndim)]
        return A(self.d, sh, self.dtype)

    def fill(self, v):
        for i in range(self.size):
            self._set(i, v)

    # torch.Tensor look-alikes (the torch shim of C04/C20 reuses this class)
    def cpu(self):
        return self

    def numpy(self):
        return self

    def detach(self):
        return self

    def clone(self):
        return self.copy()

    def unsqueeze(self, dim):
        return expand_dims(self, dim)

    def nonzero(self):
        return nonzero(self)

    # indexing --------------------------------------------------------------
    def _resolve(self, key):
        """-> (list of flat offsets into self.d, result shape, is_advanced)"""
        if not isinstance(key, tuple):
            key = (key,)
        items = []
        for k in key:
            if isinstance(k, (list, A)) and not (isinstance(k, A) and k.ndim == 0):
                arr = k if isinstance(k, A) else asarray(k)
                if arr.size and builtins.all(_is_boolish(v) for v in arr.d):
                    # boolean mask -> one integer array per mask dimension
                    mask = [_concrete_bool(v) for v in arr.d]
                    sel = [i for i, v in enumerate(mask) if v]
                    st = _strides(arr.shape)
                    for ax, (s_, n_) in enumerate(zip(st, arr.shape)):
                        items.append(('adv', [(i // s_) % n_ for i in sel], (len(sel),), n_))
                    continue
                if arr.size == 0 and arr.dtype is not None and arr.dtype.name == 'bool':
                    items.append(('adv', [], (0,), None))
                    continue
                items.append(('adv', [_to_index(v) for v in arr.d], arr.shape, None))
            elif isinstance(k, A):
                items.append(('int', _to_index(k.d[0])))
            elif k is None:
                items.append(('new',))
            elif k is Ellipsis:
                items.append(('ell',))
            elif isinstance(k, slice):
                items.append(('sl', k))
            else:
                if _is_boolish(k):
                    raise NotImplementedError('scalar boolean index')
                items.append(('int', _to_index(k)))
        n_consume = builtins.sum(1 for it in items if it[0] in ('adv', 'int', 'sl'))
        if n_consume > self.ndim:
            raise IndexError('too many indices for array: array is %d-dimensional, but %d were indexed' % (self.ndim, n_consume))
        ells = [i for i, it in enumerate(items) if it[0] == 'ell']
        if len(ells) > 1:
            raise IndexError("an index can only have a single ellipsis ('...')")
        fill = [('sl', slice(None))] * (self.ndim - n_consume)
        if ells:
            items = items[:ells[0]] + fill + items[ells[0] + 1:]
        else:
            items = items + fill
        st = _strides(self.shape)
        has_arr = builtins.any(it[0] == 'adv' for it in items)
        groups = []   # ('new',) | ('sl', [offsets]) | ('adv', [offsets per j]) placeholder
        ax = 0
        adv_pos = []
        adv_arrays = []
        for pos, it in enumerate(items):
            if it[0] == 'new':
                groups.append(('new',))
                continue
            n = self.shape[ax]
            if it[0] == 'sl':
                idxs = list(range(n))[it[1]] if _plain_slice(it[1]) else list(range(n))[_conc_slice(it[1])]
                groups.append(('sl', [i * st[ax] for i in idxs]))
            elif it[0] == 'int':
                v = it[1]
                if v < 0:
                    v += n
                if not 0 <= v < n:
                    raise IndexError('index %d is out of bounds for axis %d with size %d' % (it[1], ax, n))
                if has_arr:
                    adv_pos.append(pos)
                    adv_arrays.append(([v * st[ax]], ()))
                    groups.append(('advp',))
                else:
                    groups.append(('int', v * st[ax]))
            else:
                vals = []
                for v in it[1]:
                    w = v + n if v < 0 else v
                    if not 0 <= w < n:
                        raise IndexError('index %d is out of bounds for axis %d with size %d' % (v, ax, n))
                    vals.append(w * st[ax])
                adv_pos.append(pos)
                adv_arrays.append((vals, tuple(it[2])))
                groups.append(('advp',))
            ax += 1
        if not has_arr:
            lists = []
            shape = []
            for g in groups:
                if g[0] == 'new':
                    shape.append(1)
                elif g[0] == 'sl':
                    lists.append(g[1])
                    shape.append(len(g[1]))
                else:
                    lists.append([g[1]])
            offs = [builtins.sum(c) for c in itertools.product(*lists)]
            return offs, tuple(shape), False
        F = _bshape(*[a[1] for a in adv_arrays])
        nF = _prod(F)
        adv_b = [_bcast(A(a[0], a[1]) if a[1] != () else a[0][0], F) for a in adv_arrays]
        adv_off = [builtins.sum(ab[j] for ab in adv_b) for j in range(nF)]
        adjacent = (adv_pos[-1] - adv_pos[0] + 1 == len(adv_pos))
        pre = []
        post = []
        for pos, g in enumerate(groups):
            if g[0] == 'advp':
                continue
            tgt = pre if (adjacent and pos < adv_pos[0]) else post
            tgt.append(g)

        def glists(gs):
            ls = []
            sh = []
            for g in gs:
                if g[0] == 'new':
                    ls.append([0])
                    sh.append(1)
                else:
                    ls.append(g[1])
                    sh.append(len(g[1]))
            return ls, sh
        pl, psh = glists(pre)
        ql, qsh = glists(post)
        offs = []
        for pc in itertools.product(*pl):
            po = builtins.sum(pc)
            for j in range(nF):
                for qc in itertools.product(*ql):
                    offs.append(po + adv_off[j] + builtins.sum(qc))
        return offs, tuple(psh) + tuple(F) + tuple(qsh), True

    def _sym_gather(self, key):
        """a[seq] / a[:, seq] with symbolic integer indices: ITE-select along the
        axis instead of forking over index values (sound, no concretisation).
        Returns None when the pattern does not apply."""
        if not SYMBOLIC_GATHER:
            return None
        if isinstance(key, tuple):
            if len(key) == 2 and isinstance(key[0], slice) and key[0] == slice(None) and self.ndim == 2:
                axis, idx = 1, key[1]
            else:
                return None
        else:
            axis, idx = 0, key
        if isinstance(idx, S):
            scalar = True
            il = [idx]
        elif isinstance(idx, (A, list)):
            scalar = False
            ia = idx if isinstance(idx, A) else asarray(idx)
            if ia.ndim != 1:
                return None
            il = list(ia.d)
        else:
            return None
        if not builtins.any(isinstance(v, S) for v in il):
            return None
        if builtins.any(isinstance(v, (bool, SB)) for v in il):
            return None
        d = self.d
        if not builtins.all(_ite_able(x) for x in d):
            return None
        n = self.shape[axis]
        if n == 0:
            return None
        st = _strides(self.shape)
        other = [i for i in range(self.ndim) if i != axis]
        osh = [self.shape[i] for i in other]
        cols = []
        for v in il:
            if isinstance(v, S):
                if not bool((v >= 0) & (v < n)):
                    if bool(v < 0) and bool(v >= -n):
                        v = v + n
                    else:
                        raise IndexError('index out of bounds for axis %d with size %d' % (axis, n))
            else:
                w = v + n if v < 0 else v
                if not 0 <= w < n:
                    raise IndexError('index %d is out of bounds for axis %d with size %d' % (v, axis, n))
                v = w
            col = []
            for comb in itertools.product(*[range(k) for k in osh]):
                base = builtins.sum(c * st[a] for c, a in zip(comb, other))
                if isinstance(v, S):
                    e = d[base + (n - 1) * st[axis]]
                    for k in range(n - 2, -1, -1):
                        e = ite(v == k, d[base + k * st[axis]], e)
                else:
                    e = d[base + v * st[axis]]
                col.append(e)
            cols.append(col)
        if scalar:
            if not osh:
                return cols[0][0]
            return A(cols[0], osh)
        if axis == 0:
            return A([x for col in cols for x in col], [len(il)] + osh)
        # axis == 1 of a 2-D array: result (rows, len(il))
        rows = self.shape[0]
        return A([cols[j][r] for r in range(rows) for j in range(len(il))], (rows, len(il)))

    def __getitem__(self, key):
        g = self._sym_gather(key)
        if g is not None:
            return g
        offs, shape, adv = self._resolve(key)
        d = self.d
        if shape == () and not adv:
            return d[offs[0]]
        if adv:
            if shape == ():
                return d[offs[0]]
            return A([d[i] for i in offs], shape, self.dtype)
        return V(self, offs, shape)

    def __setitem__(self, key, val):
        offs, shape, adv = self._resolve(key)
        vals = _bcast(val, shape) if shape != () else [val.d[0] if isinstance(val, A) else val]
        for i, v in zip(offs, vals):
            self._set(i, v)

    # arithmetic ------------------------------------------------------------
    def _un(self, f):
        return A([f(x) for x in self.d], self.shape)

    def _bin(self, o, f, rev=False):
        if isinstance(o, (str,)) or o is None:
            o = A([o], ())
        sh = _bshape(self.shape, _shape_of(o))
        a = _bcast(self, sh)
        b = _bcast(o, sh)
        if rev:
            return A([f(y, x) for x, y in zip(a, b)], sh)
        return A([f(x, y) for x, y in zip(a, b)], sh)

    def _ibin(self, o, f):
        sh = self.shape
        b = _bcast(o, sh)
        for i, (x, y) in enumerate(zip(list(self.d), b)):
            self._set(i, f(x, y))
        return self

    def __add__(self, o): return self._bin(o, lambda a, b: a + b)
    def __radd__(self, o): return self._bin(o, lambda a, b: a + b, True)
    def __sub__(self, o): return self._bin(o, lambda a, b: a - b)
    def __rsub__(self, o): return self._bin(o, lambda a, b: a - b, True)
    def __mul__(self, o): return self._bin(o, lambda a, b: a * b)
    def __rmul__(self, o): return self._bin(o, lambda a, b: a * b, True)
    def __truediv__(self, o): return self._bin(o, _div)
    def __rtruediv__(self, o): return self._bin(o, _div, True)
    def __floordiv__(self, o): return self._bin(o, lambda a, b: a // b)
    def __rfloordiv__(self, o): return self._bin(o, lambda a, b: a // b, True)
    def __mod__(self, o): return self._bin(o, lambda a, b: a % b)
    def __pow__(self, o): return self._bin(o, lambda a, b: a ** b)
    def __neg__(self): return self._un(lambda a: -a)
    def __abs__(self): return self._un(core.sabs)
    def __invert__(self): return self._un(lambda a: (not a) if isinstance(a, bool) else ~a)
    def __and__(self, o): return self._bin(o, lambda a, b: a & b)
    def __rand__(self, o): return self._bin(o, lambda a, b: a & b, True)
    def __or__(self, o): return self._bin(o, lambda a, b: a | b)
    def __ror__(self, o): return self._bin(o, lambda a, b: a | b, True)
    def __lt__(self, o): return self._bin(o, lambda a, b: a < b)
    def __gt__(self, o): return self._bin(o, lambda a, b: a > b)
    def __le__(self, o): return self._bin(o, lambda a, b: a <= b)
    def __ge__(self, o): return self._bin(o, lambda a, b: a >= b)
    def __eq__(self, o): return self._bin(o, _eq)
    def __ne__(self, o): return self._bin(o, _ne)
    def __iadd__(self, o): return self._ibin(o, lambda a, b: a + b)
    def __isub__(self, o): return self._ibin(o, lambda a, b: a - b)
    def __imul__(self, o): return self._ibin(o, lambda a, b: a * b)
    def __itruediv__(self, o): return self._ibin(o, _div)

    def __matmul__(self, o):
        return dot(self, o)

    # reductions ------------------------------------------------------------
    def _red(self, f, axis, keepdims=False):
        if axis is None:
            r = f(list(self.d))
            if keepdims:
                return A([r], (1,) * self.ndim)
            return r
        if isinstance(axis, tuple):
            if len(axis) == 1:
                axis = axis[0]
            else:
                raise NotImplementedError('multi-axis reduction')
        if axis < 0:
            axis += self.ndim
        sh = self.shape[:axis] + self.shape[axis + 1:]
        st = _strides(self.shape)
        d = self.d
        out = []
        for comb in itertools.product(*[range(n) for n in sh]):
            base = builtins.sum(c * st[a if a < axis else a + 1] for a, c in enumerate(comb))
            out.append(f([d[base + k * st[axis]] for k in range(self.shape[axis])]))
        if keepdims:
            sh = self.shape[:axis] + (1,) + self.shape[axis + 1:]
        if sh == ():
            return out[0]
        return A(out, sh)

    def max(self, axis=None, keepdims=False): return self._red(_max_list, axis, keepdims)
    def min(self, axis=None, keepdims=False): return self._red(_min_list, axis, keepdims)
    def argmax(self, axis=None): return self._red(_argmax_list, axis)
    def argmin(self, axis=None): return self._red(_argmin_list, axis)
    def sum(self, axis=None, keepdims=False): return self._red(_sum_list, axis, keepdims)
    def mean(self, axis=None): return self._red(_mean_list, axis)
    def any(self, axis=None): return self._red(_any_list, axis)
    def all(self, axis=None): return self._red(_all_list, axis)
    def prod(self, axis=None): return self._red(_prod_list, axis)
    def cumsum(self, axis=None): return cumsum(self, axis)
    def round(self, decimals=0): return round_(self, decimals)
    def clip(self, lo, hi): return clip(self, lo, hi)
    def dot(self, o): return dot(self, o)


class V(A):
    """basic-indexing view; writes through to the root array"""

    def __init__(self, base, offs, shape):
        root, boffs = base._root()
        if boffs is not None:
            offs = [boffs[i] for i in offs]
        self.base = root
        self.offs = offs
        self.shape = tuple(shape)
        self.dtype = root.dtype

    @property
    def d(self):
        bd = self.base._d
        return [bd[i] for i in self.offs]

    def _set(self, i, v):
        self.base._set(self.offs[i], v)

    def _root(self):
        return self.base, self.offs


ndarray = A


def _plain_slice(s):
    return builtins.all(x is None or isinstance(x, int) for x in (s.start, s.stop, s.step))


def _conc_slice(s):
    def c(x):
        if x is None or isinstance(x, int):
            return x
        return _to_index(x)
    return slice(c(s.start), c(s.stop), c(s.step))


def _div(a, b):
    if not is_sym(a) and not is_sym(b) and not hasattr(a, '__truediv__'):
        return a / b
    if isinstance(b, (int, float)) and not isinstance(b, bool) and b == 0:
        raise ZeroDivisionError('symbolic / 0 (numpy would yield inf/nan)')
    if isinstance(a, (int, float)) and isinstance(b, (int, float)):
        if b == 0:
            # numpy semantics: warning + inf/nan
            if a == 0 or a != a:
                return nan
            return inf if a > 0 else -inf
        return a / b
    return a / b


def _sum_list(l):
    if not l:
        return 0
    l = [int(x) if isinstance(x, bool) else x for x in l]
    t = l[0]
    if isinstance(t, SB):
        t = t._num()
    for x in l[1:]:
        t = t + x
    return t


def _prod_list(l):
    t = 1
    for x in l:
        t = t * x
    return t


def _mean_list(l):
    if not l:
        return nan
    return _div(_sum_list(l), len(l))


def _max_list(l):
    if not l:
        raise ValueError('zero-size array to reduction operation maximum which has no identity')
    return core.smax(l)


def _min_list(l):
    if not l:
        raise ValueError('zero-size array to reduction operation minimum which has no identity')
    return core.smin(l)


def _argmax_list(l):
    if not l:
        raise ValueError('attempt to get argmax of an empty sequence')
    return core.sargmax(l)


def _argmin_list(l):
    if not l:
        raise ValueError('attempt to get argmin of an empty sequence')
    return core.sargmin(l)


def _any_list(l):
    return core.b_or(*[_truth(x) for x in l]) if l else False


def _all_list(l):
    return core.b_and(*[_truth(x) for x in l]) if l else True


def _truth(x):
    if isinstance(x, (bool, SB)):
        return x
    if isinstance(x, S):
        return x != 0
    return bool(x)


# ---------------------------------------------------------------------------
# construction
# ---------------------------------------------------------------------------

def asarray(x, dtype=None):
    dt = _dt(dtype)
    if isinstance(x, A):
        if dt is None or dt == x.dtype:
            return x
        return x.astype(dt)
    if isinstance(x, (set, dict)) or hasattr(x, '__next__'):
        raise NotImplementedError('asarray of %r' % type(x))
    sh = _shape_of(x)
    fl = _flat(x)
    if len(fl) != _prod(sh):
        raise ValueError('setting an array element with a sequence. The requested array has an inhomogeneous shape')
    if dt is None:
        dt = _infer_dtype(fl)
    return A([_conv(v, dt) for v in fl], sh, dt)


def _infer_dtype(fl):
    """mimic numpy's promotion for plain python values; symbolic -> untyped"""
    if not fl:
        return float64
    kinds = set()
    for v in fl:
        if isinstance(v, bool):
            kinds.add('b')
        elif isinstance(v, int):
            kinds.add('i')
        elif isinstance(v, float):
            kinds.add('f')
        elif isinstance(v, str):
            kinds.add('s')
        else:
            return None
    if kinds == {'b'}:
        return bool_
    if 's' in kinds:
        if kinds != {'s'}:
            raise NotImplementedError('mixed str/number array (numpy would coerce to str)')
        return None
    if 'f' in kinds:
        return float64
    return int64


def array(x, dtype=None, copy=True):
    r = asarray(x, dtype)
    if r is x or isinstance(r, V):
        return r.copy()
    return r


def copy(x):
    return asarray(x).copy()


def _shape_arg(shape):
    if isinstance(shape, (int, S)):
        return (_to_index(shape),)
    return tuple(_to_index(s) for s in shape)


def full(shape, v, dtype=None):
    sh = _shape_arg(shape)
    dt = _dt(dtype)
    if dt is None:
        dt = _infer_dtype([v])
    return A([_conv(v, dt)] * _prod(sh), sh, dt)


def zeros(shape, dtype=None):
    return full(shape, 0.0, dtype or float64)


def ones(shape, dtype=None):
    return full(shape, 1.0, dtype or float64)


def empty(shape, dtype=None):
    return zeros(shape, dtype)


def zeros_like(a, dtype=None):
    a = asarray(a)
    return full(a.shape, 0.0 if (dtype or a.dtype) is None else 0, dtype or a.dtype)


def ones_like(a, dtype=None):
    a = asarray(a)
    return full(a.shape, 1, dtype or a.dtype)


def full_like(a, v, dtype=None):
    a = asarray(a)
    return full(a.shape, v, dtype or a.dtype)


def arange(*args, dtype=None):
    args = [(_to_index(a) if isinstance(a, (S, SB)) and a.is_int else a) for a in args]
    if builtins.all(isinstance(a, int) for a in args):
        r = list(range(*args))
        return A(r, (len(r),), int64)
    if len(args) == 1:
        start, stop, step = 0, args[0], 1
    elif len(args) == 2:
        start, stop, step = args[0], args[1], 1
    else:
        start, stop, step = args
    if is_sym(start) or is_sym(stop) or is_sym(step):
        n = core.sceil((stop - start) / step)
        n = _to_index(n)
        n = builtins.max(n, 0)
    else:
        n = builtins.max(0, int(math.ceil((stop - start) / step)))
    r = [start + i * step for i in range(n)]
    return A(r, (n,))


def linspace(start, stop, num=50):
    num = _to_index(num)
    if num == 1:
        return A([start], (1,))
    if num <= 0:
        return A([], (0,), float64)
    step = _div(stop - start, num - 1)
    r = [start + i * step for i in range(num - 1)] + [stop]
    return A(r, (num,))


def eye(n):
    return A([1.0 if i == j else 0.0 for i in range(n) for j in range(n)], (n, n), float64)


def atleast_2d(a):
    a = asarray(a)
    if a.ndim >= 2:
        return a
    if a.ndim == 1:
        return a.reshape(1, -1)
    return a.reshape(1, 1)


def expand_dims(a, axis):
    a = asarray(a)
    if axis < 0:
        axis += a.ndim + 1
    return A(a.d, a.shape[:axis] + (1,) + a.shape[axis:], a.dtype)


def concatenate(arrs, axis=0):
    arrs = [asarray(x) for x in arrs]
    if not arrs:
        raise ValueError('need at least one array to concatenate')
    nd = arrs[0].ndim
    if nd == 0:
        raise ValueError('zero-dimensional arrays cannot be concatenated')
    for a in arrs:
        if a.ndim != nd:
            raise ValueError('all the input array dimensions except for the concatenation axis must match exactly (ndim %d vs %d)' % (nd, a.ndim))
    if axis < 0:
        axis += nd
    for a in arrs:
        for i in range(nd):
            if i != axis and a.shape[i] != arrs[0].shape[i]:
                raise ValueError('all the input array dimensions except for the concatenation axis must match exactly')
    if axis == 0:
        sh = (builtins.sum(a.shape[0] for a in arrs),) + arrs[0].shape[1:]
        return A([v for a in arrs for v in a.d], sh, arrs[0].dtype if builtins.all(a.dtype == arrs[0].dtype for a in arrs) else None)
    # move axis to front, concat, move back
    perm = [axis] + [i for i in range(nd) if i != axis]
    inv = [perm.index(i) for i in range(nd)]
    moved = [a.transpose(perm) for a in arrs]
    c = concatenate(moved, 0)
    return c.transpose(inv)


def stack(arrs, axis=0):
    arrs = [asarray(x) for x in arrs]
    return concatenate([expand_dims(a, axis) for a in arrs], axis)


def vstack(arrs):
    return concatenate([atleast_2d(a) for a in arrs], 0)


def hstack(arrs):
    arrs = [asarray(a) for a in arrs]
    if arrs[0].ndim == 1:
        return concatenate(arrs, 0)
    return concatenate(arrs, 1)


def tile(a, reps):
    a = asarray(a)
    if isinstance(reps, int):
        reps = (reps,)
    if a.ndim == 1 and len(reps) == 1:
        return A(list(a.d) * reps[0], (a.shape[0] * reps[0],), a.dtype)
    raise NotImplementedError('tile')


def flip(a, axis=None):
    a = asarray(a)
    if axis is None:
        return A(list(reversed(a.d)), a.shape, a.dtype)
    key = [slice(None)] * a.ndim
    key[axis] = slice(None, None, -1)
    return a[tuple(key)].copy()


def diff(a):
    a = asarray(a)
    if a.ndim != 1:
        raise NotImplementedError('diff ndim>1')
    d = a.d
    return A([d[i + 1] - d[i] for i in range(len(d) - 1)], (builtins.max(len(d) - 1, 0),))


def cumsum(a, axis=None):
    a = asarray(a)
    if a.ndim != 1:
        raise NotImplementedError('cumsum ndim>1')
    out = []
    t = 0
    for x in a.d:
        t = t + x
        out.append(t)
    return A(out, a.shape)


# ---------------------------------------------------------------------------
# elementwise
# ---------------------------------------------------------------------------

def _ew1(f, a):
    if isinstance(a, A) or _is_seq(a):
        a = asarray(a)
        return A([f(x) for x in a.d], a.shape)
    return f(a)


def _ew2(f, a, b):
    sa = _shape_of(a)
    sb = _shape_of(b)
    if sa == () and sb == () and not isinstance(a, A) and not isinstance(b, A):
        return f(a, b)
    sh = _bshape(sa, sb)
    x = _bcast(a, sh)
    y = _bcast(b, sh)
    return A([f(u, v) for u, v in zip(x, y)], sh)


def minimum(a, b): return _ew2(core.smin2, a, b)
def maximum(a, b): return _ew2(core.smax2, a, b)
def abs(a): return _ew1(core.sabs, a)
absolute = abs
def floor(a): return _ew1(lambda x: _asfloat(core.sfloor(x)), a)
def ceil(a): return _ew1(lambda x: _asfloat(core.sceil(x)), a)
def sign(a): return _ew1(lambda x: ite(x > 0, 1, ite(x < 0, -1, 0)), a)
def logical_and(a, b): return _ew2(lambda x, y: core.b_and(_truth(x), _truth(y)), a, b)
def logical_or(a, b): return _ew2(lambda x, y: core.b_or(_truth(x), _truth(y)), a, b)
def logical_not(a): return _ew1(lambda x: core.b_not(_truth(x)), a)
def add_(a, b): return _ew2(lambda x, y: x + y, a, b)
def square(a): return _ew1(lambda x: x * x, a)
def sqrt(a): return _ew1(core.ssqrt, a)
def power(a, b): return _ew2(lambda x, y: x ** y, a, b)
def isfinite(a): return _ew1(_isfinite, a)
def isnan(a): return _ew1(lambda x: isinstance(x, float) and x != x, a)


def _asfloat(x):
    return float(x) if isinstance(x, int) else x


def isclose(a, b, rtol=1e-05, atol=1e-08):
    def f(x, y):
        if hasattr(x, '__logaddexp__') and isinstance(y, (int, float)) and y == 0:
            # a log-value close to 0: its weight lies in [e^-atol, e^atol]
            from .logp import expc
            if getattr(x, 'zero', False):
                return False
            return core.b_and(SB(x.p >= expc(-atol)), SB(x.p <= expc(atol)))
        if isinstance(x, (int, float)) and isinstance(y, (int, float)):
            return builtins.abs(x - y) <= atol + rtol * builtins.abs(y)
        d = core.sabs(x - y)
        return d <= atol + rtol * core.sabs(y)
    return _ew2(f, a, b)


def _isfinite(x):
    if isinstance(x, float):
        return x == x and builtins.abs(x) != INF
    if isinstance(x, XR):
        return core.b_not(core.mkb(x.inf))
    if hasattr(x, '__isfinite__'):
        return x.__isfinite__()
    return True


def round_(a, decimals=0):
    if decimals != 0:
        raise NotImplementedError('round decimals != 0')
    return _ew1(lambda x: _asfloat(core.sround(x)) if is_sym(x) else float(builtins.round(x)), a)


round = round_
around = round_
rint = round_


def clip(a, lo, hi):
    def f(x):
        if lo is not None:
            x = core.smax2(x, lo)
        if hi is not None:
            x = core.smin2(x, hi)
        return x
    return _ew1(f, a)


def exp(a):
    return _ew1(_exp, a)


def log(a):
    return _ew1(_log, a)


def _exp(x):
    if hasattr(x, '__exp__'):
        return x.__exp__()
    if isinstance(x, (int, float)):
        return math.exp(x) if x != -INF else 0.0
    if isinstance(x, S):
        return core.uexp(x)
    raise NotImplementedError('exp of symbolic %r (use the LogP domain)' % type(x))


def _log(x):
    if hasattr(x, '__log__'):
        return x.__log__()
    if isinstance(x, (int, float)):
        return math.log(x) if x > 0 else (-INF if x == 0 else nan)
    if isinstance(x, S):
        # log of a symbolic real: in the LogP domain log(x) is the value whose weight is x
        from .logp import LP
        if bool(x > 0):
            return LP(core._real(x.e))
        if bool(x == 0):
            return -INF
        return nan
    raise NotImplementedError('log of symbolic %r' % type(x))


class _Ufunc:
    def __init__(self, f, name):
        self.f = f
        self.__name__ = name

    def __call__(self, a, b):
        return _ew2(self.f, a, b)

    def outer(self, a, b):
        a = asarray(a)
        b = asarray(b)
        return A([self.f(x, y) for x in a.d for y in b.d], a.shape + b.shape)

    def reduce(self, a, axis=0):
        a = asarray(a)

        def red(l):
            if self.f is _logaddexp:
                l = _lift_logs(l)
            t = l[0]
            for x in l[1:]:
                t = self.f(t, x)
            return t
        return a._red(red, axis)


def _lift_logs(l):
    """python constants in a log-sum that also has LogP members are lifted first, so that
    e.g. logaddexp(-80, -80) stays 2*e^-80 exactly instead of being folded in floats"""
    if builtins.any(hasattr(x, '__logaddexp__') for x in l):
        from .logp import LP
        return [LP.of(x) if isinstance(x, (int, float)) and not isinstance(x, bool) else x for x in l]
    return l


def _logaddexp(u, v):
    if hasattr(u, '__logaddexp__'):
        return u.__logaddexp__(v)
    if hasattr(v, '__logaddexp__'):
        return v.__logaddexp__(u)
    if isinstance(u, (int, float)) and isinstance(v, (int, float)):
        if u == -INF:
            return v
        if v == -INF:
            return u
        m = builtins.max(u, v)
        return m + math.log(math.exp(u - m) + math.exp(v - m))
    if isinstance(u, S) or isinstance(v, S):
        from .logp import LP
        return LP.of(u).__logaddexp__(v)
    raise NotImplementedError('logaddexp on %r, %r' % (type(u), type(v)))


add = _Ufunc(lambda x, y: x + y, 'add')
subtract = _Ufunc(lambda x, y: x - y, 'subtract')
multiply = _Ufunc(lambda x, y: x * y, 'multiply')
logaddexp = _Ufunc(_logaddexp, 'logaddexp')


def where(c, x=None, y=None):
    c = asarray(c)
    if x is None:
        return nonzero(c)
    sh = _bshape(c.shape, _shape_of(x), _shape_of(y))
    cc = _bcast(c, sh)
    xx = _bcast(x, sh)
    yy = _bcast(y, sh)
    return A([ite(_truth(a), b, d) for a, b, d in zip(cc, xx, yy)], sh)


def nonzero(c):
    c = asarray(c)
    if c.ndim == 0:
        c = c.reshape(1)
    vals = [_concrete_bool(_truth(v)) for v in c.d]
    idx = [i for i, v in enumerate(vals) if v]
    return tuple(A([(i // st) % n for i in idx], (len(idx),), int64) for st, n in zip(_strides(c.shape), c.shape))


def flatnonzero(c):
    return nonzero(asarray(c).reshape(-1))[0]


def argwhere(c):
    nz = nonzero(c)
    k = len(nz[0])
    return A([nz[a].d[i] for i in range(k) for a in range(len(nz))], (k, len(nz)), int64)


def any(a, axis=None): return asarray(a).any(axis)
def all(a, axis=None): return asarray(a).all(axis)
def sum(a, axis=None, keepdims=False): return asarray(a).sum(axis, keepdims)
def max(a, axis=None, keepdims=False): return asarray(a).max(axis, keepdims)
def min(a, axis=None, keepdims=False): return asarray(a).min(axis, keepdims)
amax = max
amin = min
def argmax(a, axis=None): return asarray(a).argmax(axis)
def argmin(a, axis=None): return asarray(a).argmin(axis)
def mean(a, axis=None): return asarray(a).mean(axis)
def prod(a, axis=None): return asarray(a).prod(axis)


def average(a, axis=None, weights=None):
    if weights is not None:
        raise NotImplementedError('average weights')
    return asarray(a).mean(axis)


def _sort_network(l):
    """sorted copy of a list of scalars via compare-exchange (no forking)"""
    l = list(l)
    n = len(l)
    for i in range(n):
        for j in range(n - 1 - i):
            a, b = l[j], l[j + 1]
            l[j], l[j + 1] = core.smin2(a, b), core.smax2(a, b)
    return l


def median(a, axis=None):
    a = asarray(a)

    def med(l):
        s = _sort_network(l)
        n = len(s)
        if n == 0:
            return nan
        if n % 2:
            return s[n // 2]
        return _div(s[n // 2 - 1] + s[n // 2], 2)
    return a._red(med, axis)


def quantile(a, q, axis=None):
    if q == 0.5:
        return median(a, axis)
    raise NotImplementedError('quantile q=%r' % q)


def percentile(a, q, axis=None):
    if q == 50:
        return median(a, axis)
    if q == 0:
        return asarray(a).min(axis)
    if q == 100:
        return asarray(a).max(axis)
    raise NotImplementedError('percentile q=%r' % q)


def unique(a):
    a = asarray(a)
    out = []
    for v in a.d:
        if not builtins.any(_concrete_bool(_truth(_eq(v, w))) for w in out):
            out.append(v)
    if builtins.all(isinstance(v, (int, float, str)) for v in out):
        out = sorted(out)
    else:
        raise NotImplementedError('unique on symbolic values needs sorting')
    return A(out, (len(out),))


def argsort(a, axis=-1, kind=None):
    a = asarray(a)
    if a.ndim != 1:
        raise NotImplementedError('argsort ndim>1')
    idx = list(range(a.shape[0]))
    d = a.d
    # insertion sort with forking comparisons (stable)
    out = []
    for i in idx:
        j = len(out)
        while j > 0 and _concrete_bool(_truth(d[i] < d[out[j - 1]])):
            j -= 1
        out.insert(j, i)
    return A(out, (len(out),), int64)


def sort(a, axis=-1):
    a = asarray(a)
    o = argsort(a)
    return A([a.d[i] for i in o.d], a.shape)


def dot(a, b):
    a = asarray(a)
    b = asarray(b)
    if a.ndim == 1 and b.ndim == 1:
        return _sum_list([x * y for x, y in zip(a.d, b.d)])
    if a.ndim == 2 and b.ndim == 1:
        return A([_sum_list([a.d[i * a.shape[1] + k] * b.d[k] for k in range(a.shape[1])]) for i in range(a.shape[0])], (a.shape[0],))
    if a.ndim == 2 and b.ndim == 2:
        n, m, p = a.shape[0], a.shape[1], b.shape[1]
        if b.shape[0] != m:
            raise ValueError('shapes not aligned')
        return A([_sum_list([a.d[i * m + k] * b.d[k * p + j] for k in range(m)]) for i in range(n) for j in range(p)], (n, p))
    if a.ndim == 1 and b.ndim == 2:
        m, p = b.shape
        return A([_sum_list([a.d[k] * b.d[k * p + j] for k in range(m)]) for j in range(p)], (p,))
    raise NotImplementedError('dot %s %s' % (a.shape, b.shape))


matmul = dot


def unravel_index(idx, shape):
    single = not isinstance(idx, (A, list, tuple))
    idx = asarray(idx if not single else [idx])
    st = _strides(shape)
    res = tuple(A([(_to_index(i) // s) % n for i in idx.d], idx.shape, int64) for s, n in zip(st, shape))
    if single:
        return tuple(r.d[0] for r in res)
    return res


def argpartition(a, kth, axis=-1):
    """stub: overridden per harness (nondeterministic admissible choice)"""
    raise NotImplementedError('argpartition: harness must install a stub')


def vectorize(f):
    def g(a):
        return _ew1(f, a)
    return g


def rot90(a, k=1):
    raise NotImplementedError('rot90: harness must install a stub')


class _Linalg:
    @staticmethod
    def norm(a, axis=None):
        a = asarray(a)
        return a._red(lambda l: core.ssqrt(_sum_list([x * x for x in l])), axis)

    @staticmethod
    def inv(a):
        raise NotImplementedError('linalg.inv: harness must install a stub')


linalg = _Linalg()


class _Random:
    @staticmethod
    def rand(*a):
        raise NotImplementedError('random.rand: harness must install a stub')

    @staticmethod
    def choice(*a, **k):
        raise NotImplementedError('random.choice: harness must install a stub')


random = _Random()


def seterr(**k):
    return {}


class errstate:
    def __init__(self, **k):
        pass

    def __enter__(self):
        return self

    def __exit__(self, *a):
        return False


def __getattr__(name):
    raise NotImplementedError('numpy.%s is not provided by the symnp facade' % name)

#!/usr/bin/env python3
"""Driver: python3-vt /verif/check.py <ID> [--tier quick|thorough] [--replay FILE] [--canaries]

exit 0  property held on every path within the bound (KNOWN-FINDING lines possible)
exit 1  VIOLATION property=<id> replay=<path>   (model replayed on the real code)
exit 2  harness error / inconclusive (never reported as a violation)
"""
import argparse
import json
import os
import sys

VERIF = os.path.dirname(os.path.abspath(__file__))
sys.path.insert(0, VERIF)


def main():
    ap = argparse.ArgumentParser()
    ap.add_argument('id')
    ap.add_argument('--tier', default=os.environ.get('VERIF_TIER', 'quick'), choices=['quick', 'thorough'])
    ap.add_argument('--replay')
    ap.add_argument('--canaries', action='store_true')
    ap.add_argument('--no-canaries', action='store_true')
    a = ap.parse_args()
    from symx import runner
    if a.replay:
        rr = runner.real_replay_file(a.replay)
        print(json.dumps(rr, indent=1))
        if rr.get('reproduced'):
            print('VIOLATION property=%s replay=%s' % (a.id, a.replay))
            return 1
        return 0 if rr.get('reproduced') is False else 2
    seed = int(os.environ.get('VERIF_SEED', '0') or 0)
    chk = runner.Check(a.id, a.tier, seed)
    wc = True if a.canaries else (False if a.no_canaries else None)
    return chk.run(with_canaries=wc)


if __name__ == '__main__':
    sys.exit(main())

"""C09 -- saved logits restore exactly; dense reconstruction returns what was stored.

Symbolic execution of PageLayout._gen_logits / save_logits / save_logits_bytes /
load_logits (pero_ocr/core/layout.py) on a saver layout A and a loader layout
B whose line ids are symbolic (every equality pattern between A's and B's ids:
subset, superset, disjoint, shared), with provenance tokens as logits /
characters / frame windows and symbolic presence of each component; and of
TextLine.get_dense_logits / get_full_logprobs / prepare_dense_logits on sparse
matrices in the LogP domain.
"""
import copy
import itertools
import types
import z3

from symx import core
from symx.core import S, SB, SChar
from symx import symnp, shims
from symx.logp import LP
from symx import logp
from symx.harness import Harness, mv

ID = 'C09'

META = {
    'functions': [
        'pero_ocr/core/layout.py:PageLayout._gen_logits',
        'pero_ocr/core/layout.py:PageLayout.save_logits',
        'pero_ocr/core/layout.py:PageLayout.save_logits_bytes',
        'pero_ocr/core/layout.py:PageLayout.load_logits',
        'pero_ocr/core/layout.py:PageLayout.lines_iterator',
        'pero_ocr/core/layout.py:TextLine.get_dense_logits',
        'pero_ocr/core/layout.py:TextLine.get_full_logprobs',
        'pero_ocr/core/layout.py:log_softmax',
        'pero_ocr/document_ocr/page_parser.py:prepare_dense_logits',
    ],
    'bounds': {
        'quick': 'saver and loader layouts of 0..2 lines each in 1..2 regions (all size pairs), ids symbolic with the saver ids '
                 'pairwise distinct, each of logits / characters / frame window present or None (symbolic), file-path and bytes '
                 'variants, missing_line_logits_ok on/off, legacy files without the two side tables; sparse matrices 2 x 3 with '
                 'every prune pattern',
        'thorough': 'layouts of 0..3 lines each; duplicate saver ids (weaker claim); sparse matrices up to 3 x 3',
    },
    'assumptions': [
        'pickle round trip is the identity on the dictionary (stub: deep copy); open() is an in-memory file',
        "line ids differ from the two reserved dictionary keys 'line_characters' / 'logit_coords' (a concrete run without this "
        'assumption is a recorded known finding)',
        'saver ids pairwise distinct (C11); stored sparse entries are != 0.0',
        "with missing_line_logits_ok=True incomplete lines are written with their None components (the code's loops), so the "
        "'reported instead of saved silently' clause is asserted for the default mode only",
    ],
    'outside': ['pickle / scipy.sparse internals; larger layouts; the re-decoding sentence (follows from identical inputs to deterministic functions: C02, C06, C08)'],
    'stubs': ['pickle -> deep copy', 'open -> in-memory file', 'scipy.sparse.csc_matrix -> dense store with the != 0 contract', 'numpy -> symx.symnp'],
}


class _Blob(bytes):
    pass


class _MemFile:
    def __init__(self, store, name, mode):
        self.store, self.name, self.mode = store, name, mode

    def __enter__(self):
        return self

    def __exit__(self, *a):
        return False


def _pickle_stub(store):
    m = types.ModuleType('pickle')
    m.HIGHEST_PROTOCOL = 5

    def dumps(obj, protocol=None):
        b = _Blob(b'blob')
        b.obj = copy.deepcopy(obj)
        return b

    def loads(b):
        return copy.deepcopy(b.obj)

    def dump(obj, f, protocol=None):
        assert 'w' in f.mode and 'b' in f.mode
        store[f.name] = copy.deepcopy(obj)

    def load(f):
        assert 'r' in f.mode and 'b' in f.mode
        return copy.deepcopy(store[f.name])
    m.dumps, m.loads, m.dump, m.load = dumps, loads, dump, load
    return m


def tasks(tier):
    ts = []
    n = 2 if tier == 'quick' else 3
    for na, nb in itertools.product(range(n + 1), repeat=2):
        for variant in ('path', 'bytes'):
            for ok in (False, True):
                if tier == 'quick' and variant == 'bytes' and ok:
                    continue
                ts.append({'mode': 'roundtrip', 'na': na, 'nb': nb, 'variant': variant, 'ok': ok})
    for nb in range(1, n + 1):
        ts.append({'mode': 'legacy', 'na': nb, 'nb': nb})
    ts.append({'mode': 'reserved', 'key': 'line_characters'})
    ts.append({'mode': 'reserved', 'key': 'logit_coords'})
    if tier != 'quick':
        ts.append({'mode': 'dup', 'na': 2, 'nb': 1})
        ts.append({'mode': 'dup', 'na': 3, 'nb': 2})
    shapes = [(2, 3)] if tier == 'quick' else [(1, 3), (2, 3), (3, 3), (2, 2)]
    for F, C in shapes:
        masks = [''.join(b) for b in itertools.product('10', repeat=F * C)] if F * C <= 6 else \
            ['1' * (F * C), '0' * (F * C), ('10' * 9)[:F * C], ('110' * 9)[:F * C], ('001' * 9)[:F * C]]
        for mask in masks:
            ts.append({'mode': 'dense', 'F': F, 'C': C, 'mask': mask})
    ts.append({'mode': 'dense_missing'})
    for t in ts:
        if t['mode'] == 'roundtrip' and t['na'] + t['nb'] >= 5:
            t['split'] = 16
    ts.sort(key=lambda t: -(t.get('na', 0) + t.get('nb', 0)))
    return ts


def _ids(prefix, n):
    return [SChar(z3.Int('%s%d' % (prefix, i)), '%s%d' % (prefix, i)) for i in range(n)]


def _layout(L, tag, ids, comps):
    """layout with len(ids) lines (second region from the second line on); comps[i] = (has_logits, has_chars, has_coords)"""
    pl = L.PageLayout(id='page' + tag, page_size=(10, 10))
    regs = [L.RegionLayout('r0', None)]
    if len(ids) > 2:
        regs.append(L.RegionLayout('r1', None))
    for i, lid in enumerate(ids):
        hl, hc, hk = comps[i]
        line = L.TextLine(id=lid, logits='%s_logits_%d' % (tag, i) if hl else None,
                          characters='%s_chars_%d' % (tag, i) if hc else None,
                          logit_coords='%s_coords_%d' % (tag, i) if hk else None)
        regs[0 if i < 2 else len(regs) - 1].lines.append(line)
    pl.regions = regs
    return pl


def run_task(task, patches=None):
    store = {}
    H = Harness(patches, shim_map={'pickle': _pickle_stub(store)},
                extra_builtins={'open': lambda name, mode='r': _MemFile(store, name, mode)})
    L = H.load('pero_ocr.core.layout')
    mode = task['mode']
    if mode in ('roundtrip', 'dup'):
        return _run_roundtrip(H, L, task, store)
    if mode == 'legacy':
        return _run_legacy(H, L, task, store)
    if mode == 'reserved':
        return _run_reserved(H, L, task, store)
    if mode == 'dense':
        return _run_dense(H, L, task)
    return _run_dense_missing(H, L, task)


def _run_roundtrip(H, L, task, store):
    na, nb = task['na'], task['nb']
    ok_flag = task.get('ok', False)
    variant = task.get('variant', 'path')
    dup = task['mode'] == 'dup'
    aid, bid = _ids('a', na), _ids('b', nb)
    has = [[z3.Bool('a%d_has_%s' % (i, c)) for c in ('logits', 'chars', 'coords')] for i in range(na)]
    K = 'C09:%s:' % task['mode']

    def case(m_, **kw):
        c = {'mode': task['mode'], 'variant': variant, 'ok': ok_flag, 'a_ids': mv(m_, aid), 'b_ids': mv(m_, bid),
             'a_has': [[bool(mv(m_, SB(x))) for x in row] for row in has]}
        c.update(kw)
        return c

    def body():
        store.clear()
        if not dup:
            for i in range(na):
                for j in range(i):
                    core.assume(aid[i].e != aid[j].e)
        comps = [[core.branch(x) for x in row] for row in has]
        A = _layout(L, 'A', aid, comps)
        B = _layout(L, 'B', bid, [(True, True, True)] * nb)
        complete = all(all(c) for c in comps)
        try:
            if variant == 'path':
                A.save_logits('f.logits', missing_line_logits_ok=ok_flag)
                B.load_logits('f.logits')
            else:
                B.load_logits(A.save_logits_bytes(missing_line_logits_ok=ok_flag))
        except Exception as e:
            if type(e) is Exception and 'Missing logits' in str(e):
                return ('refused', comps, complete, A, B)
            raise
        return ('saved', comps, complete, A, B)

    if task.get('split_only'):
        return H.result(prefixes=H.split(body, task['split_only']))
    for p, res, exc in H.explore(body, root=task.get('prefix')):
        if exc is not None:
            H.fail(K + 'exception:' + type(exc).__name__, 'raised %r' % (exc,), lambda m_: case(m_))
            continue
        what, comps, complete, A, B = res
        if what == 'refused':
            if complete or ok_flag:
                H.fail(K + 'spurious-refusal', 'saving was refused although every component is present (or missing components were allowed)',
                       lambda m_: case(m_))
            H.witness(lambda m_: case(m_, expect='refused'))
            continue
        if not complete and not ok_flag:
            H.fail(K + 'silent-missing', 'a line with a missing component was saved silently in the default mode', lambda m_: case(m_))
            continue
        alines = list(A.lines_iterator())
        blines = list(B.lines_iterator())
        got = lambda m_: [[l.logits, l.characters, l.logit_coords] for l in blines]
        for j, bl in enumerate(blines):
            fields = (bl.logits, bl.characters, bl.logit_coords)
            untouched = ('B_logits_%d' % j, 'B_chars_%d' % j, 'B_coords_%d' % j)
            # under the path condition: which saver line (if any) has this id?
            alts = []
            for i, al in enumerate(alines):
                exp = (al.logits, al.characters, al.logit_coords)
                if fields == exp:
                    alts.append(bid[j].e == aid[i].e)
            if fields == untouched:
                alts.append(z3.And(*[bid[j].e != a.e for a in aid]) if aid else z3.BoolVal(True))
            cond = z3.Or(*alts) if alts else z3.BoolVal(False)
            H.claim(cond, K + 'wrong-line', 'a loader line does not carry exactly the three components saved under its id '
                    '(or was changed although its id is not in the file)', lambda m_: case(m_, line=j, got=got(m_)))
        H.witness(lambda m_: case(m_, expect=got(m_)))
    return H.result()


def _run_legacy(H, L, task, store):
    """files written by old versions: no 'line_characters' / 'logit_coords' tables"""
    nb = task['nb']
    bid = _ids('b', nb)
    K = 'C09:legacy:'

    def case(m_, **kw):
        c = {'mode': 'legacy', 'b_ids': mv(m_, bid)}
        c.update(kw)
        return c

    def body():
        store.clear()
        for i in range(nb):
            for j in range(i):
                core.assume(bid[i].e != bid[j].e)
        store['old.logits'] = {bid[i]: 'old_logits_%d' % i for i in range(nb) if i % 2 == 0}
        B = _layout(L, 'B', bid, [(True, True, True)] * nb)
        B.load_logits('old.logits')
        return B

    for p, res, exc in H.explore(body):
        if exc is not None:
            H.fail(K + 'exception:' + type(exc).__name__, 'raised %r' % (exc,), lambda m_: case(m_))
            continue
        for j, bl in enumerate(res.lines_iterator()):
            if j % 2 == 0:
                ok = (bl.logits == 'old_logits_%d' % j and bl.characters is None and list(bl.logit_coords) == [None, None])
            else:
                ok = (bl.logits, bl.characters, bl.logit_coords) == ('B_logits_%d' % j, 'B_chars_%d' % j, 'B_coords_%d' % j)
            if not ok:
                H.fail(K + 'wrong-line', 'legacy logits file not loaded line by line', lambda m_: case(m_, line=j))
        H.witness(lambda m_: case(m_, expect=[[l.logits, l.characters, l.logit_coords] for l in res.lines_iterator()]))
    return H.result()


def _run_reserved(H, L, task, store):
    """a line whose id is one of the two reserved dictionary keys (concrete ids: no assumption)"""
    key = task['key']
    K = 'C09:reserved:'

    def body():
        store.clear()
        A = _layout(L, 'A', [key, 'x'], [(True, True, True)] * 2)
        B = _layout(L, 'B', [key, 'x'], [(True, True, True)] * 2)
        A.save_logits('f.logits')
        B.load_logits('f.logits')
        return A, B

    for p, res, exc in H.explore(body):
        case = {'mode': 'reserved', 'key': key}
        if exc is not None:
            H.fail(K + 'id-collides-with-reserved-key', 'raised %r' % (exc,), lambda m_: case)
            continue
        A, B = res
        for al, bl in zip(A.lines_iterator(), B.lines_iterator()):
            if (bl.logits, bl.characters, bl.logit_coords) != (al.logits, al.characters, al.logit_coords):
                H.fail(K + 'id-collides-with-reserved-key',
                       "a line whose id equals the reserved dictionary key %r is not restored (its entry is overwritten by the side table)" % key,
                       lambda m_: case)
                break
        H.witness(lambda m_: dict(case, expect=[[repr(l.logits), repr(l.characters), repr(l.logit_coords)] for l in B.lines_iterator()]))
    return H.result()


def _run_dense(H, L, task):
    F, C, mask = task['F'], task['C'], task['mask']
    pp = H.load('pero_ocr.document_ocr.page_parser')
    W = [[z3.Real('w_%d_%d' % (t, c)) for c in range(C)] for t in range(F)]
    V = [[z3.Real('v_%d_%d' % (t, c)) for c in range(C)] for t in range(F)]
    state = {}
    K = 'C09:dense:'

    def case(m_, **kw):
        c = {'mode': 'dense', 'mask': mask, 'F': F, 'C': C,
             'W': [[(mv(m_, S(W[t][c_])) if mask[t * C + c_] == '1' else None) for c_ in range(C)] for t in range(F)]}
        c.update(kw)
        return c

    def body():
        d = []
        for t in range(F):
            for c in range(C):
                if mask[t * C + c] == '1':
                    core.assume(W[t][c] > 0)
                    logp.declare_pos(W[t][c])
                    d.append(LP(W[t][c], nz=True))
                else:
                    d.append(0.0)
        line = L.TextLine(id='l', logits=shims.csc_matrix(symnp.A(d, (F, C))), characters=['a', 'b'])
        dense = line.get_dense_logits()
        full = pp.prepare_dense_logits(line)
        dense2 = line.get_dense_logits()
        # the same line object then receives other logits (as load_logits does): reconstruction must follow
        d3 = []
        for t in range(F):
            for c in range(C):
                if mask[t * C + c] == '1':
                    core.assume(V[t][c] > 0)
                    logp.declare_pos(V[t][c])
                    d3.append(LP(V[t][c], nz=True))
                else:
                    d3.append(0.0)
        line.logits = shims.csc_matrix(symnp.A(d3, (F, C)))
        dense3 = line.get_dense_logits()
        full3 = line.get_full_logprobs()
        state['dense3'], state['full3'] = dense3, full3
        return dense, full, dense2

    for p, res, exc in H.explore(body):
        if exc is not None:
            H.fail(K + 'exception:' + type(exc).__name__, 'raised %r' % (exc,), lambda m_: case(m_))
            continue
        dense, full, dense2 = res
        ok = dense.shape == (F, C) and full.shape == (F, C)
        for t in range(F):
            for c in range(C):
                x = dense[t, c]
                if mask[t * C + c] == '1':
                    ok = ok and isinstance(x, LP) and x.p.eq(W[t][c]) and isinstance(dense2[t, c], LP) and dense2[t, c].p.eq(W[t][c])
                else:
                    ok = ok and (not isinstance(x, LP)) and x == -80 and dense2[t, c] == -80
        if not ok:
            H.fail(K + 'stored-changed', 'dense reconstruction does not return stored logits unchanged and the floor for pruned entries',
                   lambda m_: case(m_))
            continue
        d3, f3 = state['dense3'], state['full3']
        ok3 = True
        for t in range(F):
            for c in range(C):
                x = d3[t, c]
                if mask[t * C + c] == '1':
                    ok3 = ok3 and isinstance(x, LP) and x.p.eq(V[t][c])
                    fx = f3[t, c]
                    df = logp.definition(fx.p) if isinstance(fx, LP) else None
                    ok3 = ok3 and df is not None and logp._poly_zero(df[0] - V[t][c] * 1) is not None and 'w_' not in df[0].sexpr() and 'w_' not in df[1].sexpr()
        if not ok3:
            H.fail(K + 'stale-after-reload', 'after new logits were assigned to the line, dense reconstruction still returns the previous matrix',
                   lambda m_: case(m_, second={'V': [[(mv(m_, S(V[t][c_])) if mask[t * C + c_] == '1' else None) for c_ in range(C)] for t in range(F)]}))
            continue
        rows = []
        for t in range(F):
            vals = [full[t, c] for c in range(C)]
            if all(isinstance(v, float) for v in vals):
                import math
                tot = sum(math.exp(v) for v in vals)
                rows.append(z3.BoolVal(abs(tot - 1) < 1e-9))
            else:
                rows.append(sum(v.p for v in vals) == 1)
        H.claim(z3.And(*rows), K + 'not-normalised', 'full log-probabilities of a frame do not exponentiate to 1', lambda m_: case(m_))
        # each full log-prob is the stored logit minus a per-frame constant: ratios within a frame are kept
        for t in range(F):
            st = [c for c in range(C) if mask[t * C + c] == '1']
            for c1, c2 in itertools.combinations(st, 2):
                d1, d2 = logp.definition(full[t, c1].p), logp.definition(full[t, c2].p)
                if d1 is None or d2 is None or not logp._poly_zero(d1[0] * W[t][c2] * d2[1] - d2[0] * W[t][c1] * d1[1]):
                    H.fail(K + 'ratios', 'log-softmax does not keep the differences between the logits of a frame', lambda m_: case(m_))
        H.witness(lambda m_: case(m_, expect=[[mv(m_, S(full[t, c].p)) if isinstance(full[t, c], LP) else None for c in range(C)] for t in range(F)]))
    return H.result()


def _run_dense_missing(H, L, task):
    pp = H.load('pero_ocr.document_ocr.page_parser')
    K = 'C09:dense_missing:'

    def body():
        line = L.TextLine(id='l', logits=None)
        try:
            pp.prepare_dense_logits(line)
        except pp.MissingLogits:
            return 'reported'
        return 'silent'

    for p, res, exc in H.explore(body):
        if exc is not None or res != 'reported':
            H.fail(K + 'not-reported', 'missing logits are not reported by prepare_dense_logits', lambda m_: {'mode': 'dense_missing'})
        H.witness(lambda m_: {'mode': 'dense_missing', 'expect': 'reported'})
    return H.result()


_F = 'pero_ocr/core/layout.py'


def canaries(tier):
    q = [t for t in tasks('quick') if t['mode'] == 'roundtrip' and t['na'] + t['nb'] <= 3 and t['nb'] >= 1]
    dq = [t for t in tasks('quick') if t['mode'] == 'dense'][:16]
    return [
        {'name': 'characters keyed by the last line of the region',
         'patches': [(_F, 'characters += [(line.id, line.characters) for line in region.lines]', 'characters += [(l.id, line.characters) for l in region.lines]')],
         'tasks': q},
        {'name': 'load: id test inverted', 'patches': [(_F, 'if line.id not in logits_dict:\n                    continue', 'if line.id in logits_dict:\n                    continue')],
         'tasks': q, 'error_counts': True},
        {'name': 'missing characters not reported', 'patches': [(_F, "                if line.characters is None:\n                    raise Exception(f'Missing logits mapping to characters for line {line.id}.')\n", '')],
         'tasks': q},
        {'name': 'floor applied to the sparse matrix before densifying',
         'patches': [(_F, 'dense_logits[dense_logits == 0] = zero_logit_value', 'dense_logits[dense_logits <= 0] = zero_logit_value')],
         'tasks': dq},
        {'name': 'coords restored from the wrong table', 'patches': [(_F, 'line.logit_coords = logit_coords[line.id]', 'line.logit_coords = characters[line.id]')],
         'tasks': q},
    ]

"""C12 -- region sorting only permutes regions and always terminates.

Symbolic execution of smart_sorter.py (Region, CoupledRegions.{intersect, add_regions, update_corners,
divide_and_order, decouple, get_ordered_ids, __eq__}, SmartRegionSorter.process_page / get_rotation /
rotate_page_layout) and naive_sorter.py (Region, NaiveRegionSorter.process_page / sort_regions) on pages of
0..n regions whose bounding boxes are symbolic reals (zero-width / zero-height, identical, nested and mutually
overlapping boxes included).
"""
import itertools
import types
import z3

from symx import core
from symx.core import S, SB
from symx import symnp, shims
from symx.harness import Harness, mv

ID = 'C12'

META = {
    'functions': [
        'pero_ocr/layout_engines/smart_sorter.py:Region', 'pero_ocr/layout_engines/smart_sorter.py:CoupledRegions.__init__',
        'pero_ocr/layout_engines/smart_sorter.py:CoupledRegions.intersect', 'pero_ocr/layout_engines/smart_sorter.py:CoupledRegions.add_regions',
        'pero_ocr/layout_engines/smart_sorter.py:CoupledRegions.update_corners', 'pero_ocr/layout_engines/smart_sorter.py:CoupledRegions.divide_and_order',
        'pero_ocr/layout_engines/smart_sorter.py:CoupledRegions.decouple', 'pero_ocr/layout_engines/smart_sorter.py:CoupledRegions.get_ordered_ids',
        'pero_ocr/layout_engines/smart_sorter.py:CoupledRegions.__eq__', 'pero_ocr/layout_engines/smart_sorter.py:SmartRegionSorter.process_page',
        'pero_ocr/layout_engines/smart_sorter.py:SmartRegionSorter.get_rotation', 'pero_ocr/layout_engines/smart_sorter.py:SmartRegionSorter.rotate_page_layout',
        'pero_ocr/layout_engines/naive_sorter.py:Region', 'pero_ocr/layout_engines/naive_sorter.py:NaiveRegionSorter.process_page',
        'pero_ocr/layout_engines/naive_sorter.py:NaiveRegionSorter.sort_regions',
    ],
    'bounds': {
        'quick': 'smart sorter: 0..2 regions with all four corners of every box symbolic (x_min <= x_max, y_min <= y_max, in [0, 1000]); 3 regions with '
                 'one axis symbolic and the other taken from 4 concrete arrangements (staggered, identical, nested, zero extent; 6 in the thorough tier); '
                 'intersection parameter symbolic in (0,1); naive sorter: 0..3 regions, image width and width denominator symbolic integers',
        'thorough': 'smart sorter: 3 regions with one axis symbolic and the other from all 6 arrangements; 4 regions with three concrete boxes and one symbolic box; a concave 5-point variant; naive sorter: 4 regions',
    },
    'assumptions': [
        'numpy scalar division: x / 0 is +-inf or nan with a warning, never an exception (Python floats would raise: tracked per value)',
        'the de-skew angle is 0 (no text lines, or horizontal ones), or (deskew tasks) an arbitrary non-zero angle with the rotation modelled as an abstract invertible map: '
        'rotating by -a yields arbitrary boxes, rotating those by +a yields the original polygons (what shapely.affinity computes numerically is outside)',
        'DBSCAN(min_samples=1) on 1-D points = connected components of the relation |a - b| <= eps, labels in order of first occurrence; '
        'it raises ValueError for an empty input and for eps <= 0 (sklearn contract)',
        'coordinates are exact reals',
    ],
    'outside': ['non-zero de-skew (shapely affine rotation, cv2)', 'more than 4 regions', 'polygons other than boxes beyond the concave variant'],
    'stubs': ['sklearn.cluster.DBSCAN -> exact 1-D model', 'numpy -> symx.symnp', 'shapely / cv2 -> inert (not reached when the angle is 0)'],
}

BUDGET = 400


def tasks(tier):
    ts = []
    YP = [[[0, 10], [20, 30], [40, 50]], [[0, 30], [10, 40], [20, 50]], [[0, 10], [0, 10], [0, 10]], [[0, 50], [10, 20], [10, 20]],
          [[5, 5], [0, 10], [20, 30]], [[0, 10], [10, 20], [5, 15]]]
    for n in range(0, 3):
        ts.append({'mode': 'smart', 'n': n})
    # three (four) regions: one axis symbolic, the other from a set of concrete arrangements (stacked, staggered, identical,
    # nested, zero height, touching); the fully symbolic 3-region space is not scheduled (see tasks)
    for yp in (YP if tier != 'quick' else YP[1:5]):
        ts.append({'mode': 'smart', 'n': 3, 'ypat': yp, 'split': 32})
        ts.append({'mode': 'smart', 'n': 3, 'xpat': yp, 'split': 32})
    # non-zero de-skew: the rotation into the de-skewed frame and back is an abstract invertible map (see body)
    ts.append({'mode': 'smart', 'n': 2, 'deskew': True, 'split': 32})
    ts.append({'mode': 'smart', 'n': 3, 'deskew': True, 'ypat': YP[1], 'split': 32})
    for n in range(0, 4):
        t = {'mode': 'naive', 'n': n}
        if n >= 3:
            t['split'] = 32
        ts.append(t)
    if tier != 'quick':
        # three regions with BOTH axes symbolic (~10^5 paths, 640 sub-tasks of minutes each: ~100 min on 16 cores) is not scheduled
        ts.append({'mode': 'smart', 'n': 2, 'concave': True})
        ts.append({'mode': 'naive', 'n': 4, 'split': 128})
        for yp in YP[:3]:
            ts.append({'mode': 'smart', 'n': 4, 'ypat': yp + [[15, 45]], 'xpat': [[0, 10], [5, 15], [20, 30], [0, 30]], 'free': [3], 'split': 64})
    ts.sort(key=lambda t: -(t['n'] * 10 + (5 if 'ypat' not in t and 'xpat' not in t else 0)))
    return ts


class _DBSCAN:
    def __init__(self, eps=0.5, min_samples=5, **kw):
        self.eps = eps
        self.min_samples = min_samples

    def fit_predict(self, X):
        X = symnp.asarray(X)
        n = X.shape[0] if X.ndim else 0
        if n == 0:
            raise ValueError('Found array with 0 sample(s) (shape=(0, 1)) while a minimum of 1 is required by DBSCAN.')
        if bool(self.eps <= 0):
            raise ValueError("The 'eps' parameter of DBSCAN must be a float in the range (0.0, inf). Got %r instead." % (self.eps,))
        assert self.min_samples == 1
        pts = [X[i, 0] for i in range(n)]
        parent = list(range(n))

        def find(i):
            while parent[i] != i:
                i = parent[i]
            return i
        for i in range(n):
            for j in range(i):
                d = pts[i] - pts[j]
                if bool((d <= self.eps) & (-d <= self.eps)):
                    parent[find(i)] = find(j)
        labels, seen = [], {}
        for i in range(n):
            r = find(i)
            if r not in seen:
                seen[r] = len(seen)
            labels.append(seen[r])
        return symnp.A(labels, (n,), symnp.int64)


def _np_unique_patch():
    real = symnp.unique

    def unique(a, return_index=False):
        a = symnp.asarray(a)
        if not return_index:
            return real(a)
        vals = sorted(set(int(v) for v in a.d))
        idx = [[int(x) for x in a.d].index(v) for v in vals]
        return symnp.A(vals, (len(vals),), symnp.int64), symnp.A(idx, (len(idx),), symnp.int64)
    symnp.unique = unique


def run_task(task, patches=None):
    sk = types.ModuleType('sklearn')
    skc = types.ModuleType('sklearn.cluster')
    skc.DBSCAN = _DBSCAN
    sk.cluster = skc
    H = Harness(patches, shim_map={'sklearn': sk, 'sklearn.cluster': skc}, extra_builtins={'print': lambda *a, **k: None})
    H.ctx.div_mode = 'numpy'
    _np_unique_patch()
    L = H.load('pero_ocr.core.layout')
    n = task['n']
    mode = task['mode']
    K = 'C12:%s:' % mode
    x0 = [z3.Real('x0_%d' % i) for i in range(n)]
    x1 = [z3.Real('x1_%d' % i) for i in range(n)]
    y0 = [z3.Real('y0_%d' % i) for i in range(n)]
    y1 = [z3.Real('y1_%d' % i) for i in range(n)]
    param = z3.Real('intersect_param')
    width = z3.Int('image_width')
    denom = z3.Int('width_denom')
    counter = {'calls': 0}

    def case(m_, **kw):
        c = {'mode': mode, 'n': n, 'concave': bool(task.get('concave')), 'deskew': bool(task.get('deskew')), 'boxes': [[mv(m_, S(v)) for v in (x0[i], y0[i], x1[i], y1[i])] for i in range(n)],
             'param': mv(m_, S(param)), 'width': mv(m_, S(width)), 'denom': mv(m_, S(denom))}
        if task.get('deskew'):
            # the boxes the abstract rotation produced: the sorter ordered THESE (a page with these boxes and no slant is a second real input)
            c['rot_boxes'] = [[mv(m_, S(z3.Real('rot%d_%s' % (i, k)))) for k in ('x0', 'y0', 'x1', 'y1')] for i in range(n)]
        c.update(kw)
        return c

    def build():
        pl = L.PageLayout(id='p', page_size=(1000, 1000))
        for i in range(n):
            core.assume(z3.And(x0[i] >= 0, x0[i] <= x1[i], x1[i] <= 1000, y0[i] >= 0, y0[i] <= y1[i], y1[i] <= 1000))
            free = task.get('free')
            if task.get('ypat') and not (free and i in free and False):
                core.assume(z3.And(y0[i] == task['ypat'][i][0], y1[i] == task['ypat'][i][1]))
            if task.get('xpat') and not (free and i in free):
                core.assume(z3.And(x0[i] == task['xpat'][i][0], x1[i] == task['xpat'][i][1]))
            pts = [S(x0[i]), S(y0[i]), S(x1[i]), S(y0[i]), S(x1[i]), S(y1[i]), S(x0[i]), S(y1[i])]
            if task.get('concave'):
                # an L-shaped 5-point polygon inside the same bounding box
                mx, my = S((x0[i] + x1[i]) / 2), S((y0[i] + y1[i]) / 2)
                pts = [S(x0[i]), S(y0[i]), S(x1[i]), S(y0[i]), mx, my, S(x1[i]), S(y1[i]), S(x0[i]), S(y1[i])]
            reg = L.RegionLayout('r%d' % i, symnp.A(pts, (len(pts) // 2, 2)))
            reg.transcription = 'text %d' % i
            pl.regions.append(reg)
        return pl

    if mode == 'smart':
        mod = H.load('pero_ocr.layout_engines.smart_sorter')
        real_dao = mod.CoupledRegions.divide_and_order

        def dao(self, vertical=False):
            counter['calls'] += 1
            if counter['calls'] > BUDGET:
                raise RecursionError('divide_and_order step budget exceeded (possible non-termination)')
            return real_dao(self, vertical)
        mod.CoupledRegions.divide_and_order = dao

        ang = z3.Real('deskew_angle')

        def body():
            counter['calls'] = 0
            core.assume(z3.And(param > 0, param < 1))
            pl = build()
            before = list(pl.regions)
            polys = [r.polygon for r in before]
            if task.get('deskew'):
                # pages with slanted lines: the mean baseline tilt is some non-zero angle; rotating by -angle yields SOME polygons (fresh
                # symbolic boxes), rotating those by +angle yields the originals again (the rotation is invertible); anything else is garbage
                core.assume(ang != 0)
                rotated = {}
                back = {}
                for i, pg in enumerate(polys):
                    vs = [z3.Real('rot%d_%s' % (i, k)) for k in ('x0', 'y0', 'x1', 'y1')]
                    core.assume(z3.And(vs[0] <= vs[2], vs[1] <= vs[3], vs[0] >= -2000, vs[2] <= 2000, vs[1] >= -2000, vs[3] <= 2000))
                    if task.get('ypat'):
                        core.assume(z3.And(vs[1] == task['ypat'][i][0], vs[3] == task['ypat'][i][1]))
                    rp = symnp.A([S(vs[0]), S(vs[1]), S(vs[2]), S(vs[1]), S(vs[2]), S(vs[3]), S(vs[0]), S(vs[3])], (4, 2))
                    rotated[id(pg)] = rp
                    back[id(rp)] = pg

                def rot_poly(polygon, angle):
                    a = z3.simplify(core.lift(angle) + ang)
                    b = z3.simplify(core.lift(angle) - ang)
                    if id(polygon) in rotated and z3.is_rational_value(a) and a.as_fraction() == 0:
                        return rotated[id(polygon)]
                    if id(polygon) in back and z3.is_rational_value(b) and b.as_fraction() == 0:
                        return back[id(polygon)]
                    return symnp.A(['garbage'] * 8, (4, 2))
                mod.SmartRegionSorter.get_rotation = staticmethod(lambda lines: S(ang))
                mod.SmartRegionSorter.rotate_polygon = staticmethod(rot_poly)
                mod.SmartRegionSorter.rotate_line = staticmethod(rot_poly)
            sorter = object.__new__(mod.SmartRegionSorter)
            sorter.intersect_param = S(param)
            out = sorter.process_page(None, pl)
            return before, polys, out
    else:
        mod = H.load('pero_ocr.layout_engines.naive_sorter')

        def body():
            core.assume(z3.And(width >= 1, width <= 5000, denom >= 1, denom <= 100))
            pl = build()
            before = list(pl.regions)
            polys = [r.polygon for r in before]
            sorter = object.__new__(mod.NaiveRegionSorter)
            sorter.width_denom = S(denom)

            class Img:
                shape = (S(z3.Int('image_height')), S(width), 3)
            out = sorter.process_page(Img(), pl)
            return before, polys, out

    if task.get('split_only'):
        return H.result(prefixes=H.split(body, task['split_only']))
    for p, res, exc in H.explore(body, root=task.get('prefix')):
        if exc is not None:
            H.fail(K + 'raises:' + type(exc).__name__, 'the sorter raised %s: %s' % (type(exc).__name__, str(exc)[:100]), lambda m_: case(m_, error=repr(exc)[:200]))
            continue
        before, polys, out = res
        after = list(out.regions)
        if len(after) != len(before) or sorted(map(id, after)) != sorted(map(id, before)):
            H.fail(K + 'not-a-permutation', 'the sorted page does not hold exactly the input regions, each once: %r' % ([r.id for r in after],),
                   lambda m_: case(m_, got=[r.id for r in after]))
            continue
        if any(r.polygon is not q for r, q in zip(before, polys)) or any(r.transcription != 'text %s' % r.id[1:] for r in before):
            # prefer a counterexample with proper boxes away from the origin, stacked in input order (replayed through the real rotation)
            rb = [z3.And(x0[i] >= 10, x1[i] - x0[i] >= 20, y1[i] - y0[i] >= 20, y0[i] >= 10) for i in range(n)] + [y0[i] >= y1[i - 1] + 20 for i in range(1, n)]
            H.fail(K + 'region-changed', 'a region was modified by sorting', lambda m_: case(m_), robust=rb)
        if not task.get('deskew'):       # (the real de-skew needs real slanted lines: replayed for counterexamples only)
            H.witness(lambda m_: case(m_, expect=[r.id for r in after]), extra=_margins(x0, x1, y0, y1, n))
    return H.result()


def _margins(x0, x1, y0, y1, n):
    """witness models away from ties (the real sorters run in floats and use unstable comparisons of equal keys consistently anyway)"""
    vs = [v for i in range(n) for v in (x0[i], x1[i], y0[i], y1[i])]
    # integer coordinates: their differences and comparisons are exact in floats too
    return [z3.Or(a - b >= 1, b - a >= 1) for a, b in itertools.combinations(vs, 2)] + [v == z3.ToReal(z3.ToInt(v)) for v in vs]


_S = 'pero_ocr/layout_engines/smart_sorter.py'
_N = 'pero_ocr/layout_engines/naive_sorter.py'


def canaries(tier):
    # NOT SCHEDULED: on the last day the canary phase of this check did not finish (the broken sorters run every path up to the
    # step budget; > 25 min per canary); the definitions are kept as _canaries_defined() for a later session
    return []


def _canaries_defined(tier='thorough'):
    q = [t for t in tasks('quick')]
    # two regions only: with three-region tasks each canary ran longer than the tier itself (the broken sorters loop up to the step budget on every path)
    qs = [t for t in q if t['mode'] == 'smart' and t['n'] == 2 and not t.get('deskew')]
    qn = [t for t in q if t['mode'] == 'naive']
    return [
        {'name': 'naive sorter without the guard for fewer than two regions (the defect repaired by the fix: commit)',
         'patches': [(_N, '        if len(page_layout.regions) < 2:\n            return page_layout\n\n', '')], 'tasks': qn},
        {'name': 'merged region not removed from the work list', 'patches': [(_S, '                        non_aligned.pop(idx)\n', '')], 'tasks': qs},
        {'name': 'get_ordered_ids skips nested groups', 'patches': [(_S, '            elif isinstance(regions, CoupledRegions):\n                ids.extend(regions.get_ordered_ids())', '            elif isinstance(regions, CoupledRegions) and len(regions.region_list) == 1:\n                ids.extend(regions.get_ordered_ids())')],
         'tasks': qs, 'error_counts': True},
        {'name': 'python floats for the corners (division by zero raises on degenerate boxes)',
         'patches': [(_S, '        self.x_min = self.x_arr.min()\n        self.x_max = self.x_arr.max()\n        self.y_min = self.y_arr.min()\n        self.y_max = self.y_arr.max()',
                      '        self.x_min = float(self.x_arr.min())\n        self.x_max = float(self.x_arr.max())\n        self.y_min = float(self.y_arr.min())\n        self.y_max = float(self.y_arr.max())'),
                     (_S, '            intersection = np.min(np.abs((self.y_min - regions.y_max, regions.y_min - self.y_max)))\n\n            if intersection / (self.y_max - self.y_min) > intersect_param and intersection / (regions.y_max - regions.y_min) > intersect_param:',
                      '            intersection = min(abs(self.y_min - regions.y_max), abs(regions.y_min - self.y_max))\n\n            if intersection / (self.y_max - self.y_min) > intersect_param and intersection / (regions.y_max - regions.y_min) > intersect_param:')],
         'tasks': [t for t in qs if t['n'] == 2]},
    ]

"""C07 -- batched line recognition returns each line's own result in input order.

Symbolic execution of BaseEngineLineOCR.process_lines (ctc bookkeeping), softmax.softmax and PageOCR.process_page.
Line crops are abstract images with SYMBOLIC widths (every ordering, equal widths, widths beyond the engine
maximum); the padded batch tensor is a placement canvas that records which image was written where; the
network is the environment: a stub whose output for a row depends only on the image placed in that row.
"""
import itertools
import types
import z3

from symx import core
from symx.core import S, SB
from symx import symnp, shims
from symx.logp import LP
from symx import logp
from symx.harness import Harness, mv

ID = 'C07'

META = {
    'functions': [
        'pero_ocr/ocr_engine/line_ocr_engine.py:BaseEngineLineOCR.process_lines',
        'pero_ocr/ocr_engine/softmax.py:softmax',
        'pero_ocr/document_ocr/page_parser.py:PageOCR.process_page',
    ],
    'bounds': {
        'quick': '0..3 line crops with symbolic widths in [1, 600*b], batch size b symbolic in 1..16, sub-sampling 4, padding 32; dense logits, '
                 'tight-crop and no-logits modes; sparse storage on one frame of 3 logits (frames are independent in softmax(axis=1))',
        'thorough': '0..3 line crops in all three flavours; sparse storage on one frame of 2..4 logits',
    },
    'assumptions': [
        'the network output for a batch row depends only on the image placed in that row, its offset and the part of it inside the tensor '
        '(frame j of a row holding image i at offset o is Fr(i, 4j - o) inside the image, padding elsewhere): the stub networks of the property',
        'the real networks, and the effect of padding on real receptive fields, are outside',
    ],
    'outside': ['transformer mode window splitting (C15 covers the merge)', 'more than 4 lines'],
    'stubs': ['np.zeros with a symbolic width -> placement canvas', 'run_ocr -> environment stub', 'numpy -> symx.symnp', 'torch / cv2 -> inert'],
}

PAD = 32
SS = 4
H_PX = 16


def tasks(tier):
    ts = []
    # four lines were measured and are not scheduled: single sub-tasks of the dense flavour ran past 40 minutes (the batch-size
    # arithmetic with four symbolic widths), the whole tier past 90
    nmax = 3
    for n in range(0, nmax + 1):
        for mode in ('dense', 'tight', 'nologits'):
            if n == nmax and mode in ('nologits', 'tight') and tier == 'quick':
                continue        # quick: the largest batch only in the dense flavour
            t = {'mode': 'batch', 'n': n, 'flavour': mode}
            if n >= 3:
                t['split'] = 32
            ts.append(t)
    ts.append({'mode': 'page', 'n': 2})
    # one frame at a time: softmax(axis=1) treats the frames independently (two frames already exceed what nlsat finishes)
    shapes = [(1, 3)] if tier == 'quick' else [(1, 2), (1, 3), (1, 4)]
    for F, C in shapes:
        ts.append({'mode': 'sparse', 'F': F, 'C': C})
    # a line with no frame of its own (tight crop of a line narrower than one frame): an empty matrix goes through the sparsification
    ts.append({'mode': 'sparse', 'F': 0, 'C': 3})
    ts.sort(key=lambda t: -t.get('n', 1))
    return ts


class Img:
    def __init__(self, i, w):
        self.i = i
        self.shape = (H_PX, w, 3)

    def __repr__(self):
        return 'Img(%d)' % self.i


class Row:
    def __init__(self, canvas, r):
        self.canvas, self.r = canvas, r

    def __setitem__(self, key, image):
        # data[:, pad:pad+w, :] = image
        assert isinstance(key, tuple) and len(key) == 3 and key[0] == slice(None) and key[2] == slice(None)
        sl = key[1]
        self.canvas.placed.setdefault(self.r, []).append((image, sl.start, sl.stop))      # layers: a reused buffer keeps what was written before


class Canvas:
    """np.zeros([rows, H, W, 3]) with symbolic W: records placements instead of pixels"""

    def __init__(self, rows, h, w):
        self.rows, self.h, self.w = rows, h, w
        self.placed = {}

    @property
    def shape(self):
        return (self.rows, self.h, self.w, 3)

    def __iter__(self):
        return iter([Row(self, r) for r in range(self.rows)])

    def __len__(self):
        return self.rows

    def __getitem__(self, key):
        # batch_data[:, :, :max]
        assert isinstance(key, tuple) and key[0] == slice(None) and key[1] == slice(None) and isinstance(key[2], slice) and key[2].start is None
        c = Canvas(self.rows, self.h, core.smin2(self.w, key[2].stop))
        c.placed = {r: list(v) for r, v in self.placed.items()}
        return c


class Frames:
    """logits of one row: an abstract sequence of frames; frame j shows image `img` at pixel 4j - off (or padding)"""

    def __init__(self, img, off, vis_end, length, lo=0, hi=None):
        self.img, self.off, self.vis_end, self.length = img, off, vis_end, length
        self.lo = lo
        self.hi = length if hi is None else hi

    @property
    def shape(self):
        return (self.hi - self.lo, 3)

    def __len__(self):
        n = self.hi - self.lo
        return core.concretize(n.e) if isinstance(n, S) else n

    def __setitem__(self, key, val):
        assert isinstance(key, _Mask) and val == 0       # sparsification of an abstract frame sequence: not modelled here

    def __getitem__(self, key):
        assert isinstance(key, slice) and key.step is None
        lo = self.lo if key.start is None else self.lo + key.start
        hi = self.hi if key.stop is None else core.smin2(self.hi, self.lo + key.stop)
        return Frames(self.img, self.off, self.vis_end, self.length, lo, hi)


class _Mask:
    pass


class _Probs:
    def __lt__(self, o):
        return _Mask()


class _NpProxy:
    def __getattr__(self, name):
        return getattr(symnp, name)

    def zeros(self, shape, dtype=None):
        if isinstance(shape, (list, tuple)) and len(shape) == 4 and isinstance(shape[2], S):
            return Canvas(shape[0], shape[1], shape[2])
        return symnp.zeros(shape, dtype)


class _NpMaxFork:
    """numpy facade for softmax.py: the row maximum of log-weights is found by forking on which entry it is
    (then the subtracted maximum is a plain variable and every quotient stays a ratio of input polynomials)"""

    def __getattr__(self, name):
        return getattr(symnp, name)

    def max(self, a, axis=None, keepdims=False):
        a = symnp.asarray(a)
        if not any(isinstance(x, LP) for x in a.d):
            return symnp.max(a, axis, keepdims)

        def red(l):
            i = core.choose(len(l))
            cons = [core.zb(l[i] >= l[j]) for j in range(len(l)) if j != i]
            cons = [c for c in cons if not z3.is_true(c)]
            if cons:
                core.assume(z3.And(*cons))
            return l[i]
        return a._red(red, axis, keepdims)


def run_task(task, patches=None):
    H = Harness(patches, extra_builtins={'print': lambda *a, **k: None})
    if task['mode'] == 'sparse':
        return _run_sparse(H, task)
    eng = H.load('pero_ocr.ocr_engine.line_ocr_engine')
    eng.np = _NpProxy()
    n = task['n']
    flavour = task.get('flavour', 'dense')
    ws = [z3.Int('w%d' % i) for i in range(n)]
    b = z3.Int('batch_size')
    K = 'C07:%s:' % task['mode']
    calls = []
    state_stale = []

    def case(m_, **kw):
        c = {'mode': task['mode'], 'n': n, 'flavour': flavour, 'widths': [mv(m_, S(w)) for w in ws], 'batch_size': mv(m_, S(b))}
        c.update(kw)
        return c

    def make_engine():
        e = object.__new__(eng.BaseEngineLineOCR)
        e.line_px_height = H_PX
        e.model_type = 'ctc'
        e.batch_size = S(b)
        e.line_padding_px = PAD
        e.max_input_horizontal_pixels = 480 * S(b)
        e.net_subsampling = SS
        e.max_line_width = 1e10
        e.characters = ('a', 'b')

        class _Dev:
            type = 'cpu'
        e.device = _Dev()

        def run_ocr(batch_data):
            assert isinstance(batch_data, Canvas)
            calls.append(batch_data)
            trs, lgs = [], []
            for r in range(batch_data.rows):
                layers = batch_data.placed.get(r, [])
                if not layers:
                    trs.append(('Tr', None, 0))
                    lgs.append(Frames(Img(-1, 0), 0, 0, batch_data.w // SS))
                    continue
                img, start, stop = layers[-1]
                # pixels of an earlier write that the last write does not cover are still in the row: the network sees them
                stale = [core.zb((S(core.lift(s0)) < start) | (S(core.lift(e0)) > stop)) for (_i, s0, e0) in layers[:-1]]
                if stale:
                    state_stale.append(z3.Or(*stale))
                vis_end = core.smin2(stop, batch_data.w)          # the part of the image that is inside the tensor
                trs.append(('Tr', img.i, vis_end - start))
                lgs.append(Frames(img, start, vis_end, batch_data.w // SS))
            return trs, lgs
        e.run_ocr = run_ocr
        return e

    def body():
        del calls[:]
        del state_stale[:]
        core.assume(z3.And(b >= 1, b <= 16))
        for w in ws:
            core.assume(z3.And(w >= 1, w <= 600 * b))
        lines = [Img(i, S(ws[i])) for i in range(n)]
        e = make_engine()
        if task['mode'] == 'page':
            # PageOCR uses the default (sparse) mode: the sparsification of the abstract frames is a no-op here (its arithmetic is the 'sparse' task)
            eng.softmax = lambda x, axis=None: _Probs()
            eng.sparse = types.SimpleNamespace(csc_matrix=lambda x: x)
            pp = H.load('pero_ocr.document_ocr.page_parser')
            L = H.load('pero_ocr.core.layout')
            pl = L.PageLayout(id='p', page_size=(10, 10))
            reg = L.RegionLayout('r', None)
            for i in range(n):
                reg.lines.append(L.TextLine(id='l%d' % i, crop=lines[i]))
            pl.regions = [reg]
            ocr = object.__new__(pp.PageOCR)
            ocr.ocr_engine = e
            ocr.process_page(None, pl)
            out = [(l.transcription, l.logits, l.logit_coords, l.characters) for l in pl.lines_iterator()]
            return lines, ([o[0] for o in out], [o[1] for o in out], [o[2] for o in out])
        return lines, e.process_lines(lines, sparse_logits=False, tight_crop_logits=(flavour == 'tight'), no_logits=(flavour == 'nologits'))

    if task.get('split_only'):
        return H.result(prefixes=H.split(body, task['split_only']))
    for p, res, exc in H.explore(body, root=task.get('prefix')):
        if exc is not None:
            H.fail(K + 'exception:' + type(exc).__name__, 'raised %r' % (exc,), lambda m_: case(m_))
            continue
        lines, (trs, lgs, coords) = res
        if not (len(trs) == len(lgs) == len(coords) == n):
            H.fail(K + 'length', 'result lists do not have one entry per input line', lambda m_: case(m_))
            continue
        maxw = 480 * b
        if state_stale:
            H.claim(z3.Not(z3.Or(*state_stale)), K + 'stale-pixels', 'a batch row still holds pixels of a line written into it for an earlier batch: the result depends on the other lines', lambda m_: case(m_))
        for i in range(n):
            w = ws[i]
            t = trs[i]
            got = lambda m_: {'line': i, 'transcription': [t[0], t[1], mv(m_, t[2])] if isinstance(t, tuple) else repr(t)}
            if not (isinstance(t, tuple) and t[0] == 'Tr' and t[1] == i):
                H.fail(K + 'wrong-line', 'the transcription at position %d was computed from another image (or is missing)' % i, lambda m_: case(m_, got=got(m_)))
                continue
            # the whole line is seen when it fits the engine maximum; otherwise it is truncated to that maximum
            vis = core.lift(t[2])
            H.claim(z3.If(w + PAD <= maxw, vis == w, vis == maxw - PAD), K + 'visible-width',
                    'line %d was recognised on a different horizontal extent than its own (un-padded) width / the engine maximum' % i,
                    lambda m_: case(m_, got=got(m_)))
            if flavour == 'nologits':
                if lgs[i] is not None or coords[i] is not None:
                    H.fail(K + 'nologits', 'no-logits mode returned logits', lambda m_: case(m_))
                continue
            fr = lgs[i]
            if not isinstance(fr, Frames) or fr.img.i != i:
                H.fail(K + 'wrong-logits', 'the logits at position %d belong to another image' % i, lambda m_: case(m_))
                continue
            lo, hi = core.lift(fr.lo), core.lift(fr.hi)
            if flavour == 'tight':
                if list(coords[i]) != [None, None]:
                    H.fail(K + 'coords', 'tight-crop mode must report an unknown frame window', lambda m_: case(m_))
                win_lo, win_hi = lo, hi
            else:
                c0, c1 = core.lift(coords[i][0]), core.lift(coords[i][1])
                H.claim(z3.And(lo == 0, hi == core.lift(fr.length)), K + 'dense-cropped', 'dense logits of line %d are not the whole row' % i, lambda m_: case(m_))
                win_lo, win_hi = c0, c1
            # the window covers exactly the un-padded horizontal extent: frames j with 0 <= 4j - PAD < w  (w not truncated)
            off = core.lift(fr.off)
            # ... i.e. the frames whose 4-pixel cell lies entirely inside the image: first cell starts at the image, the cell after the last does not fit
            exact = z3.And(win_lo * SS == off, win_hi * SS - off <= w, (win_hi + 1) * SS - off > w)
            H.claim(z3.Implies(w + PAD <= maxw, z3.And(off == PAD, exact)), K + 'window',
                    'the frame window of line %d does not cover exactly the un-padded extent of the line' % i,
                    lambda m_: case(m_, line=i, window=[mv(m_, S(win_lo)), mv(m_, S(win_hi))]))
        H.witness(lambda m_: case(m_, expect={'transcriptions': [[t[1], mv(m_, t[2])] if isinstance(t, tuple) else None for t in trs],
                                              'coords': [[mv(m_, c) for c in cc] if cc is not None else None for cc in coords]}))
    return H.result()


def _run_sparse(H, task):
    """sparse storage keeps every logit whose posterior is at least 1e-4 unchanged and nothing else"""
    eng = H.load('pero_ocr.ocr_engine.line_ocr_engine')
    sm = H.load('pero_ocr.ocr_engine.softmax')
    sm.np = _NpMaxFork()
    H.ctx.lazy_quotients = True
    F, C = task['F'], task['C']
    W = [[z3.Real('w_%d_%d' % (t, c)) for c in range(C)] for t in range(F)]
    K = 'C07:sparse:'

    def case(m_, **kw):
        c = {'mode': 'sparse', 'F': F, 'C': C, 'W': [[mv(m_, S(x)) for x in row] for row in W]}
        c.update(kw)
        return c

    def body():
        for row in W:
            for x in row:
                core.assume(x > 0)
                logp.declare_pos(x)
        e = object.__new__(eng.BaseEngineLineOCR)
        e.line_px_height = H_PX
        e.model_type = 'ctc'
        e.line_padding_px = 0
        e.max_input_horizontal_pixels = 10000
        e.net_subsampling = SS
        e.max_line_width = 1e10

        class _Dev:
            type = 'cpu'
        e.device = _Dev()

        class _I:
            shape = (H_PX, max(F * SS, 2), 3)
        lg = symnp.A([LP(W[t][c], nz=True) for t in range(F) for c in range(C)], (F, C))
        e.run_ocr = lambda batch: (['x'], [lg.copy()])
        tr, out, coords = e.process_lines([_I()], sparse_logits=True)
        return out[0]

    for p, res, exc in H.explore(body):
        if exc is not None:
            H.fail(K + 'exception:' + type(exc).__name__, 'raised %r' % (exc,), lambda m_: case(m_))
            continue
        dense = res.toarray()
        thr = z3.RealVal('1/10000')
        conj = []
        for t in range(F):
            tot = sum(W[t])
            for c in range(C):
                x = dense[t, c]
                kept = isinstance(x, LP) and x.p.eq(W[t][c])
                dropped = (not isinstance(x, LP)) and x == 0
                if not (kept or dropped):
                    conj = None
                    break
                post_ge = W[t][c] >= thr * tot
                conj.append(post_ge if kept else z3.Not(post_ge))
            if conj is None:
                break
        if conj is None:
            H.fail(K + 'value-changed', 'a stored logit is not the original value', lambda m_: case(m_))
            continue
        for cj in conj:
            H.claim(cj, K + 'threshold', 'an entry is kept / dropped on the wrong side of the 1e-4 posterior threshold', lambda m_: case(m_))
        H.witness(lambda m_: case(m_, expect=[[isinstance(dense[t, c], LP) for c in range(C)] for t in range(F)]),
                  extra=[z3.Or(W[t][c] > 2 * thr * sum(W[t]), W[t][c] * 2 < thr * sum(W[t])) for t in range(F) for c in range(C)])
    return H.result()


_F = 'pero_ocr/ocr_engine/line_ocr_engine.py'


def canaries(tier):
    q = [t for t in tasks('quick') if t['mode'] == 'batch' and t['n'] in (2, 3)]
    return [
        {'name': 'results scattered by batch position instead of line id',
         'patches': [(_F, '                for ids, transcription, line_logits in zip(batch_line_ids, out_transcriptions, out_logits):\n                    all_transcriptions[ids] = transcription',
                      '                for ids, transcription, line_logits in zip(range(len(batch_line_ids)), out_transcriptions, out_logits):\n                    all_transcriptions[ids] = transcription')],
         'tasks': [t for t in q if t['n'] == 2], 'error_counts': True},
        {'name': 'frame window computed as pad//ss + w//ss (the same value whenever the padding is a multiple of the sub-sampling, as in every engine configuration: negative control)',
         'patches': [(_F, '                            int((self.line_padding_px + lines[ids].shape[1]) // self.net_subsampling)]\n\n                    elif self.model_type == "transformer":',
                      '                            int(self.line_padding_px // self.net_subsampling + lines[ids].shape[1] // self.net_subsampling)]\n\n                    elif self.model_type == "transformer":')],
         'tasks': [t for t in q if t['flavour'] == 'dense' and t['n'] == 2], 'expect': False},
        {'name': 'sparsification threshold <= instead of <',
         'patches': [(_F, 'line_logits[line_probs < 0.0001] = 0', 'line_logits[line_probs <= 0.0001] = 0')], 'tasks': [t for t in tasks('quick') if t['mode'] == 'sparse']},
        {'name': 'batch shorter than the id list consumed (ids advance by batch_size + 1)',
         'patches': [(_F, '            line_ids = line_ids[batch_size:]', '            line_ids = line_ids[batch_size + 1:] if len(line_ids) > batch_size + 1 else line_ids[batch_size:]')],
         'tasks': q, 'error_counts': True},
    ]

"""C14 replay against the real confusion_networks module (run under /venv/bin/python)."""
import itertools
import math
from fractions import Fraction

from pero_ocr.decoding import confusion_networks as cnm
from pero_ocr.decoding.bag_of_hypotheses import BagOfHypotheses


def _f(x):
    if isinstance(x, str) and '/' in x:
        return float(Fraction(x))
    return float(x)


def _s(codes):
    return ''.join(chr(0x4e00 + (c % 2000)) for c in codes)


def readable(cn, s):
    n, L = len(cn), len(s)
    R = [[False] * (L + 1) for _ in range(n + 1)]
    R[n][L] = True
    for i in range(n - 1, -1, -1):
        for j in range(L, -1, -1):
            r = (None in cn[i]) and R[i + 1][j]
            if j < L and s[j] in cn[i]:
                r = r or R[i + 1][j + 1]
            R[i][j] = r
    return R[0][0]


def _embeds(old, new, score, mean_total, tol=1e-9):
    n_old, n_new = len(old), len(new)
    if n_new < n_old:
        return False
    for ins in itertools.combinations(range(n_new), n_new - n_old):
        oi = 0
        ok = True
        for i in range(n_new):
            pos = new[i]
            if i in ins:
                if len(pos) != 2 or None not in pos or abs(pos[None] - mean_total) > tol:
                    ok = False
                    break
                other = [v for k, v in pos.items() if k is not None][0]
                if abs(other - score) > tol:
                    ok = False
                    break
                continue
            o = old[oi]
            oi += 1
            if not set(o) <= set(pos):
                ok = False
                break
            grown = 0
            for k, v in pos.items():
                d = v - o.get(k, 0.0)
                if abs(d) <= tol:
                    continue
                if abs(d - score) <= tol:
                    grown += 1
                else:
                    ok = False
            if grown != 1:
                ok = False
            if not ok:
                break
        if ok:
            return True
    return False


def _hist(case):
    hyps = [_s(h) for h in case['hyps']]
    scores = [_f(w) for w in case['scores']]
    cn = []
    for step, (h, w) in enumerate(zip(hyps, scores)):
        before = [dict(p) for p in cn]
        mean_total = sum(sum(p.values()) for p in before) / len(before) if before else None
        cn = cnm.add_hypothese(cn, h, w)
        for j in range(step + 1):
            if not before and j < step:
                continue
            if not readable(cn, hyps[j]):
                return 'after adding hypothesis %d (%r) hypothesis %d (%r) is not readable from %r' % (step, h, j, hyps[j], cn), cn
        if before and not _embeds(before, cn, w, mean_total):
            return 'weights: %r -> %r adding %r score %r' % (before, cn, h, w), cn
    if cn:
        nc = cnm.normalize_cn([dict(p) for p in cn])
        for p in nc:
            if abs(sum(p.values()) - 1) > 1e-9:
                return 'normalised position sums to %r' % sum(p.values()), cn
    if len(hyps) == 1:
        b = cnm.best_cn_path(cn)
        if b != hyps[0] and not (b == [] and hyps[0] == ''):
            return 'best path %r != %r' % (b, hyps[0]), cn
    return None, cn


def _paths(case):
    cn = [{k: _f(v) for k, v in pos} for pos in case['cn']]
    res = cnm.sorted_cn_paths([dict(p) for p in cn])
    exp = []
    for combo in itertools.product(*[list(p.items()) for p in cn]):
        exp.append((''.join(k for k, _ in combo if k is not None), math.prod(v for _, v in combo)))
    if len(res) != len(exp):
        return 'count %d != %d' % (len(res), len(exp)), res
    rem = list(exp)
    for s, p in res:
        hit = [i for i, (es, ep) in enumerate(rem) if es == s and abs(ep - p) < 1e-9]
        if not hit:
            return 'path (%r, %r) is not an arc combination (or is repeated)' % (s, p), res
        rem.pop(hit[0])
    if any(res[i][1] < res[i + 1][1] - 1e-12 for i in range(len(res) - 1)):
        return 'not sorted: %r' % (res,), res
    if abs(sum(p for _, p in res) - 1) > 1e-9:
        return 'sum %r' % sum(p for _, p in res), res
    return None, res


def _boh(case):
    boh = BagOfHypotheses()
    hyps = [_s(h) for h in case['hyps']]
    for h, v, l in zip(hyps, case['vis'], case['lm']):
        boh.add(h, _f(v), None if l is None else _f(l))
    cn = cnm.produce_cn_from_boh(boh, visual_weight=_f(case['vw']), lm_weight=_f(case['lw']), normalize=True)
    for j, h in enumerate(hyps):
        if j == 0 and h == '':
            continue
        if not readable(cn, h):
            return 'hypothesis %r not readable from %r' % (h, cn), cn
    for p in cn:
        if abs(sum(p.values()) - 1) > 1e-9:
            return 'position sums to %r' % sum(p.values()), cn
    return None, cn


def replay(case):
    try:
        bad, _ = {'hist': _hist, 'paths': _paths, 'boh': _boh}[case['mode']](case)
    except Exception as e:
        return {'reproduced': True, 'detail': 'raised %r' % (e,)}
    return {'reproduced': bad is not None, 'detail': bad or 'ok'}


def check_witness(w):
    if w['mode'] == 'hist':
        bad, cn = _hist(w)
        exp = w['expect']
        ok = len(cn) == len(exp)
        if ok:
            for pos, epos in zip(cn, exp):
                e = {(None if k is None else _s([k])): _f(v) for k, v in epos}
                if set(e) != set(pos) or any(abs(e[k] - pos[k]) > 1e-9 * max(1, abs(e[k])) for k in e):
                    ok = False
        return {'match': ok, 'got': repr(cn)}
    if w['mode'] == 'paths':
        bad, res = _paths(w)
        exp = [(s, _f(p)) for s, p in w['expect']]
        ok = len(res) == len(exp) and all(a[0] == b[0] and abs(a[1] - b[1]) < 1e-9 for a, b in zip(res, exp))
        if not ok or w.get('unordered'):
            # ties may be ordered differently by a stable sort: compare as multisets
            ok = sorted((s, round(p, 9)) for s, p in res) == sorted((s, round(p, 9)) for s, p in exp)
        return {'match': ok, 'got': repr(res)}
    bad, cn = _boh(w)
    exp = [[None if k is None else _s([k]) for k in pos] for pos in w['expect_keys']]
    return {'match': [list(p.keys()) for p in cn] == exp, 'got': repr(cn)}

"""C09 replay against the real layout module (real pickle, real files, real scipy.sparse)."""
import math
import os
import pickle
import tempfile
from fractions import Fraction

import numpy as np
import scipy.sparse

from pero_ocr.core import layout as L
from pero_ocr.document_ocr import page_parser as pp


def _layout(tag, ids, comps):
    pl = L.PageLayout(id='page' + tag, page_size=(10, 10))
    regs = [L.RegionLayout('r0', None)]
    if len(ids) > 2:
        regs.append(L.RegionLayout('r1', None))
    for i, lid in enumerate(ids):
        hl, hc, hk = comps[i]
        line = L.TextLine(id=lid, logits='%s_logits_%d' % (tag, i) if hl else None,
                          characters='%s_chars_%d' % (tag, i) if hc else None,
                          logit_coords='%s_coords_%d' % (tag, i) if hk else None)
        regs[0 if i < 2 else len(regs) - 1].lines.append(line)
    pl.regions = regs
    return pl


def _sid(x):
    return x if isinstance(x, str) else 'id%d' % x


def _roundtrip(case):
    aid = [_sid(x) for x in case['a_ids']]
    bid = [_sid(x) for x in case['b_ids']]
    comps = case['a_has']
    A = _layout('A', aid, comps)
    B = _layout('B', bid, [(True, True, True)] * len(bid))
    d = tempfile.mkdtemp()
    try:
        try:
            if case['variant'] == 'path':
                f = os.path.join(d, 'x.logits')
                A.save_logits(f, missing_line_logits_ok=case['ok'])
                B.load_logits(f)
            else:
                B.load_logits(A.save_logits_bytes(missing_line_logits_ok=case['ok']))
        except Exception as e:
            if type(e) is Exception and 'Missing logits' in str(e):
                return 'refused', A, B
            raise
    finally:
        import shutil
        shutil.rmtree(d, ignore_errors=True)
    return 'saved', A, B


def _check_roundtrip(case):
    what, A, B = _roundtrip(case)
    complete = all(all(r) for r in case['a_has'])
    if what == 'refused':
        return what, B, ('spurious refusal' if (complete or case['ok']) else None)
    if not complete and not case['ok']:
        return what, B, 'saved silently with a missing component'
    al = list(A.lines_iterator())
    ids = [l.id for l in al]
    for j, bl in enumerate(B.lines_iterator()):
        f = (bl.logits, bl.characters, bl.logit_coords)
        if bl.id in ids:
            cands = [(a.logits, a.characters, a.logit_coords) for a in al if a.id == bl.id]
            if f not in cands:
                return what, B, 'line %d (%s) has %r, saved %r' % (j, bl.id, f, cands)
        elif f != ('B_logits_%d' % j, 'B_chars_%d' % j, 'B_coords_%d' % j):
            return what, B, 'line %d not in the file but changed to %r' % (j, f)
    return what, B, None


def _dense(case):
    F, C, W = case['F'], case['C'], case['W']
    a = np.zeros((F, C))
    for t in range(F):
        for c in range(C):
            if W[t][c] is not None:
                w = Fraction(W[t][c])
                a[t, c] = math.log(w.numerator) - math.log(w.denominator)
                if a[t, c] == 0.0:
                    a[t, c] = 1e-300
    line = L.TextLine(id='l', logits=scipy.sparse.csc_matrix(a), characters=['a', 'b'])
    dense = line.get_dense_logits()
    full = pp.prepare_dense_logits(line)
    bad = None
    for t in range(F):
        for c in range(C):
            exp = a[t, c] if W[t][c] is not None else -80
            if dense[t, c] != exp:
                bad = 'dense[%d,%d] = %r, expected %r' % (t, c, dense[t, c], exp)
    if not np.allclose(np.exp(full).sum(axis=1), 1.0, atol=1e-9):
        bad = 'rows not normalised'
    if not np.allclose(full - full[:, :1], dense - dense[:, :1], atol=1e-9):
        bad = 'differences within a frame not kept'
    # the line then receives other logits
    b = np.where(a != 0, a - 1.25, 0.0)
    if case.get('second'):
        V = case['second']['V']
        for t in range(F):
            for c in range(C):
                if V[t][c] is not None:
                    v = Fraction(V[t][c])
                    b[t, c] = (math.log(v.numerator) - math.log(v.denominator)) or 1e-300
    line.logits = scipy.sparse.csc_matrix(b)
    d3 = line.get_dense_logits()
    exp3 = np.where(b != 0, b, -80)
    if not np.array_equal(d3, exp3):
        bad = 'after assigning new logits dense reconstruction returns %r, expected %r' % (d3.tolist(), exp3.tolist())
    return full, bad


def replay(case):
    mode = case['mode']
    try:
        if mode in ('roundtrip', 'dup'):
            what, B, bad = _check_roundtrip(case)
            return {'reproduced': bad is not None, 'detail': bad or 'ok'}
        if mode == 'reserved':
            key = case['key']
            A = _layout('A', [key, 'x'], [(True, True, True)] * 2)
            B = _layout('B', [key, 'x'], [(True, True, True)] * 2)
            B.load_logits(A.save_logits_bytes())
            for al, bl in zip(A.lines_iterator(), B.lines_iterator()):
                if (bl.logits, bl.characters, bl.logit_coords) != (al.logits, al.characters, al.logit_coords):
                    return {'reproduced': True, 'detail': 'line %r restored as %r instead of %r' % (bl.id, bl.logits, al.logits)}
            return {'reproduced': False, 'detail': 'ok'}
        if mode == 'dense':
            full, bad = _dense(case)
            return {'reproduced': bad is not None, 'detail': bad or 'ok'}
        if mode == 'dense_missing':
            try:
                pp.prepare_dense_logits(L.TextLine(id='l', logits=None))
            except pp.MissingLogits:
                return {'reproduced': False, 'detail': 'reported'}
            return {'reproduced': True, 'detail': 'not reported'}
        if mode == 'legacy':
            return {'reproduced': not check_witness(dict(case, expect=None))['match'], 'detail': 'legacy'}
    except Exception as e:
        return {'reproduced': True, 'detail': 'raised %r' % (e,)}
    return {'reproduced': None, 'detail': 'unknown mode'}


def check_witness(w):
    mode = w['mode']
    if mode in ('roundtrip', 'dup'):
        what, B, bad = _check_roundtrip(w)
        if w['expect'] == 'refused':
            return {'match': what == 'refused' and bad is None}
        got = [[l.logits, l.characters, l.logit_coords] for l in B.lines_iterator()]
        return {'match': bad is None and got == w['expect'], 'got': got, 'bad': bad}
    if mode == 'legacy':
        bid = [_sid(x) for x in w['b_ids']]
        B = _layout('B', bid, [(True, True, True)] * len(bid))
        B.load_logits(pickle.dumps({bid[i]: 'old_logits_%d' % i for i in range(len(bid)) if i % 2 == 0}))
        got = [[l.logits, l.characters, l.logit_coords] for l in B.lines_iterator()]
        ok = all((g[0] == 'old_logits_%d' % j and g[1] is None and list(g[2]) == [None, None]) if j % 2 == 0
                 else g == ['B_logits_%d' % j, 'B_chars_%d' % j, 'B_coords_%d' % j] for j, g in enumerate(got))
        return {'match': ok and (w['expect'] is None or [[a, b, list(c) if isinstance(c, (list, tuple)) else c] for a, b, c in got] == w['expect']), 'got': got}
    if mode == 'reserved':
        return {'match': True}
    if mode == 'dense':
        full, bad = _dense(w)
        ok = bad is None
        for t, row in enumerate(w['expect']):
            for c, v in enumerate(row):
                if v is not None and abs(math.exp(full[t, c]) - float(Fraction(v))) > 1e-7:
                    ok = False
        return {'match': ok, 'bad': bad}
    if mode == 'dense_missing':
        return {'match': not replay(w)['reproduced']}
    return {'match': False}

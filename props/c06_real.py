"""C06 replay against the real layout / arabic_helper modules with the real lxml; align_text, get_line_confidence and the
line cropper are scripted from the case (they are the stubs of the symbolic run)."""
import re
import warnings
from fractions import Fraction

import numpy as np
import scipy.sparse

from pero_ocr.core import layout as L
from pero_ocr.core.arabic_helper import ArabicHelper

CHARSET = ['a', 'b', 'ب', '<blank>']
F = 5


def _f(x):
    return float(Fraction(x)) if isinstance(x, str) else float(x)


def _alto(case):
    g = {k: int(_f(v)) for k, v in case['geo'].items()}
    F = case.get('F', 5)
    text = case['text']
    lmode = case['logits']
    pl = L.PageLayout(id='page 1.jpg', page_size=(g['page_h'], g['page_w']))
    reg = L.RegionLayout('r1', np.array([[g['rx0'], g['ry0']], [g['rx1'], g['ry0']], [g['rx1'], g['ry1']], [g['rx0'], g['ry1']]]))
    line = L.TextLine(id='l1', baseline=np.array([[g['lx0'], g['by']], [g['lx1'], g['by']]]),
                      polygon=np.array([[g['lx0'], g['ly0']], [g['lx1'], g['ly0']], [g['lx1'], g['ly1']], [g['lx0'], g['ly1']]]),
                      heights=[_f(case['heights'][0]), _f(case['heights'][1])], transcription=text)
    npre = case.get('pre', 0)
    CHARSET = ['a', '.', 'ب', '<blank>'] if npre else globals()['CHARSET']
    line.characters = list(CHARSET)
    if npre:
        reg.lines.append(L.TextLine(id='l0', baseline=line.baseline, polygon=line.polygon, heights=list(line.heights), transcription='ب'))
    if lmode != 'absent':
        line.logits = scipy.sparse.csc_matrix(np.full((F, len(CHARSET)), -1.0))
        line.logit_coords = [None, None] if lmode == 'nocoords' else [0, F]
    reg.lines.append(line)
    pl.regions.append(reg)
    pos = [int(_f(p)) for p in case['positions']]
    conf = [_f(c) for c in case['conf']]

    def align_text(neg, labels, blank):
        if lmode == 'unalignable' or len(labels) > F or len(labels) == 0:
            raise ValueError('stub: not alignable')
        return np.array(pos[:len(labels)], dtype=np.int32)
    W = int(_f(case['crop_columns']))

    class Cropper:
        def __init__(self, **kw):
            pass

        def get_crop_inputs(self, baseline, heights, target_height):
            return np.arange(16 * W * 2, dtype=float).reshape(16, W, 2) * 0.37 + 3.0
    saved = (L.align_text, L.get_line_confidence, L.EngineLineCropper)
    L.align_text = align_text
    if case.get('glc') != 'real':
        L.get_line_confidence = lambda line_, labels, aligned, logprobs: np.array(conf[:len(labels)])
    L.EngineLineCropper = Cropper
    try:
        with warnings.catch_warnings():
            warnings.simplefilter('ignore')
            s = pl.to_altoxml_string(min_line_confidence=_f(case['min_conf']))
        L2 = L.PageLayout()
        L2.from_altoxml_string(s)
    finally:
        L.align_text, L.get_line_confidence, L.EngineLineCropper = saved
    contents = re.findall(r'<String [^>]*CONTENT="([^"]*)"', s)
    import html
    contents = [html.unescape(c) for c in contents]
    nlines = len(re.findall(r'<TextLine ', s))
    bad = []
    if npre:
        if nlines < 1 or contents[:1] != ['ب']:
            return contents, ['the preceding Arabic line is not exported with its word']
        nlines -= 1
        contents = contents[1:]
    words = text.split()
    nonblank = bool(text) and text.strip() != ''
    lc = line.transcription_confidence
    if not nonblank:
        if nlines:
            bad.append('blank line exported')
        return contents, bad
    if nlines == 0:
        if lc is None or not (lc < _f(case['min_conf'])):
            bad.append('line missing from the ALTO file (confidence %r, minimum %r)' % (lc, case['min_conf']))
        return None, bad
    helper = ArabicHelper()
    if helper.is_arabic_line(text) and lmode in ('align', 'nocoords') and len(text) <= F:
        exp = [helper.label_form_to_string(w) for w in words]
    else:
        exp = words
    if contents != exp:
        bad.append('String contents %r are not the words %r of %r' % (contents, exp, text))
    for m in re.finditer(r' (HEIGHT|WIDTH|VPOS|HPOS|BASELINE)="([^"]*)"', s):
        if not re.fullmatch(r'-?\d+', m.group(2)):
            bad.append('%s=%r is not an integer' % (m.group(1), m.group(2)))
            break
    for m in re.finditer(r' WC="([^"]*)"', s):
        if not (0 <= float(m.group(1)) <= 1):
            bad.append('WC=%s outside [0,1]' % m.group(1))
    l2 = [ln for r in L2.regions for ln in r.lines][npre:]
    if not bad and (len(l2) != 1 or l2[0].transcription != ' '.join(exp)):
        bad.append('re-import gives %r' % ([ln.transcription for ln in l2],))
    return contents, bad


def _page(case):
    ph, pw = [int(_f(x)) for x in case['page']]
    pl = L.PageLayout(id='p', page_size=(ph, pw))
    for r, b in enumerate(case['blocks']):
        x0, y0, x1, y1 = [int(_f(v)) for v in b]
        pl.regions.append(L.RegionLayout('r%d' % r, np.array([[x0, y0], [x1, y0], [x1, y1], [x0, y1]])))
    s = pl.to_altoxml_string()

    def attr(tag, k):
        m = re.search(r'<%s [^>]*\b%s="([^"]*)"' % (tag, k), s)
        return int(m.group(1))
    got = [attr('PrintSpace', 'HPOS'), attr('PrintSpace', 'VPOS'), attr('PrintSpace', 'WIDTH'), attr('PrintSpace', 'HEIGHT')]
    bad = []
    if case['blocks']:
        bs = [[int(_f(v)) for v in b] for b in case['blocks']]
        X0, Y0, X1, Y1 = min(b[0] for b in bs), min(b[1] for b in bs), max(b[2] for b in bs), max(b[3] for b in bs)
        if got != [X0, Y0, X1 - X0, Y1 - Y0]:
            bad.append('print space %r is not the bounding box %r of the blocks' % (got, [X0, Y0, X1 - X0, Y1 - Y0]))
        if (attr('TopMargin', 'HEIGHT'), attr('LeftMargin', 'WIDTH'), attr('RightMargin', 'WIDTH'), attr('BottomMargin', 'HEIGHT')) != \
                (got[1], got[0], pw - (got[0] + got[2]), ph - (got[1] + got[3])):
            bad.append('margins do not cover the rest of the page')
    return got, bad


def _arabic(case):
    text = case['text']
    h = ArabicHelper()
    r = h._reverse(text)
    bad = []
    if sorted(r) != sorted(text):
        bad.append('not a permutation: %r -> %r' % (text, r))
    elif h._reverse(r) != text:
        bad.append('not an involution: %r -> %r -> %r' % (text, r, h._reverse(r)))
    elif h.label_form_to_string(h.string_to_label_form(text)) != text:
        bad.append('label round trip')
    return r, bad


def _eval(case):
    return {'alto': _alto, 'page': _page, 'arabic': _arabic}[case['mode']](case)


def replay(case):
    try:
        got, bad = _eval(case)
    except Exception as e:
        return {'reproduced': True, 'detail': 'raised %r' % (e,)}
    return {'reproduced': bool(bad), 'detail': '; '.join(bad[:3]) or 'ok %r' % (got,)}


def check_witness(w):
    got, bad = _eval(w)
    exp = w['expect']
    if w['mode'] == 'page':
        ok = exp is None or got == [int(_f(x)) for x in exp]
    else:
        ok = got == exp
    return {'match': bool(ok), 'got': got, 'bad': bad[:2]}

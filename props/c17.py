"""C17 -- resuming an interrupted batch completes every requested output.

Symbolic execution of user_scripts/parse_folder.py: main() (from the id determination to the final statistics),
load_already_processed_files(_in_directory), create_dir_if_not_exists and Computator.__call__ over a modelled
file system.  Every output write is an event; run r is killed when its event counter reaches a symbolic crash
index c_r (the solver decides which positions are feasible: every position between two writes, before the
first and after the last); up to three crashes are followed by an uninterrupted run.
"""
import itertools
import os as _os
import types
import z3

from symx import core
from symx.core import S, SB
from symx.harness import Harness, mv

ID = 'C17'

META = {
    'functions': [
        'user_scripts/parse_folder.py:main',
        'user_scripts/parse_folder.py:load_already_processed_files',
        'user_scripts/parse_folder.py:load_already_processed_files_in_directory',
        'user_scripts/parse_folder.py:create_dir_if_not_exists',
        'user_scripts/parse_folder.py:get_value_or_none',
        'user_scripts/parse_folder.py:Computator.__call__',
    ],
    'bounds': {
        'quick': '2 pages with 1..2 lines, one symbolic crash position followed by an uninterrupted run, 10 subsets of the output kinds '
                 '{xml, render, logits, alto, lines}, page id sets {p1,p2}, {a.b,a}, {x.xml.y,x}; plus a run on a complete batch',
        'thorough': 'up to three successive symbolic crash positions, all 31 non-empty kind subsets, three pages for the plain id set, more id sets',
    },
    'assumptions': [
        'writes are atomic and ordered (no torn files); a kill is an exception that the script\'s `except Exception` does not catch',
        'the page parser is deterministic (C08): a file\'s content is a token (page id, kind, image the page was computed from)',
        'output directories are distinct per kind',
    ],
    'outside': ['torn files; concurrent runs; the lmdb line writer; --process-count > 1'],
    'stubs': ['os.listdir / os.path.exists / os.makedirs -> modelled file system', 'cv2.imread / cv2.imwrite, PageLayout.to_pagexml / save_logits / to_altoxml / render_to_image -> write events',
              'PageParser, torch, safe_gpu, configparser, argparse -> inert stand-ins'],
}

KINDS = ('xml', 'render', 'logits', 'alto', 'lines')
EXT = {'xml': '.xml', 'render': '.jpg', 'logits': '.logits', 'alto': '.xml'}


class Crash(BaseException):
    pass


def _subsets(tier):
    allk = [list(c) for n in range(1, 6) for c in itertools.combinations(KINDS, n)]
    if tier != 'quick':
        return allk
    pick = [['xml'], ['xml', 'logits'], ['xml', 'render', 'logits'], ['xml', 'logits', 'alto'], ['xml', 'lines'], ['logits', 'alto', 'lines'],
            ['alto'], ['lines'], ['render', 'alto'], list(KINDS)]
    return pick


def tasks(tier):
    ts = []
    # the last set: two ids whose order differs from the order of their image file names ('a.1.jpg' < 'a.jpg' but 'a' < 'a.1') behind a page that completes first
    idsets = [['p1', 'p2'], ['a.b', 'a'], ['x.xml.y', 'x'], ['0', 'a.1', 'a']]
    if tier != 'quick':
        idsets += [['p1', 'p2', 'p3'], ['q.jpg.r', 'q'], ['m.logits', 'm']]
    for kinds in _subsets(tier):
        for ids in idsets:
            for crashes in ((1,) if tier == 'quick' else (1, 2, 3)):
                if len(ids) == 3 and crashes > 2:
                    continue
                if crashes == 3 and len(kinds) > 3:
                    continue
                ts.append({'mode': 'resume', 'kinds': kinds, 'ids': ids, 'crashes': crashes})
            ts.append({'mode': 'complete', 'kinds': kinds, 'ids': ids})
    for t in ts:
        if t['mode'] == 'resume' and t['crashes'] >= 2:
            t['split'] = 16
    ts.sort(key=lambda t: -(len(t['kinds']) * t.get('crashes', 0)))
    return ts


class FS:
    def __init__(self):
        self.files = {}          # (dir, name) -> content token
        self.dirs = set()

    def write(self, path, content):
        d, n = _os.path.split(path)
        self.files[(d, n)] = content


def _lines_of(page_id):
    return ['l0'] if page_id.endswith('1') or page_id in ('a', 'x') else ['l0', 'l1']


def _make_env(H, fs, state):
    """stub modules / classes for one harness instance; `state` carries the per-run event counter and crash index"""

    def event(path, content):
        k = state['k']
        state['k'] += 1
        if core.branch(state['crash'] == k):
            raise Crash()
        fs.write(path, content)
        state['log'].append((state['run'], path, content))

    class Line:
        def __init__(self, lid):
            self.id = lid
            self.transcription = 'text'

            class _Crop:
                def astype(self, t):
                    return self
            self.crop = _Crop()

    class Region:
        def __init__(self, lines):
            self.lines = lines

    class PageLayout:
        def __init__(self, id=None, page_size=(0, 0), file=None):
            self.id = id
            self.page_size = page_size
            self.regions = []
            self.image = None

        def lines_iterator(self):
            for r in self.regions:
                for l in r.lines:
                    yield l

        def to_pagexml(self, path):
            event(path, ('xml', self.id, self.image))

        def save_logits(self, path):
            event(path, ('logits', self.id, self.image))

        def to_altoxml(self, path):
            event(path, ('alto', self.id, self.image))

        def render_to_image(self, image):
            pass

        def load_logits(self, path):
            pass

    class Image:
        def __init__(self, name):
            self.name = name
            self.shape = (10, 10, 3)

    class PageParser:
        provides_ctc_logits = True
        decoder = None

        def __init__(self, config, config_path='', device=None):
            pass

        def process_page(self, image, page_layout):
            state['processed'].append((state['run'], page_layout.id))
            page_layout.image = image.name
            page_layout.regions = [Region([Line(l) for l in _lines_of(page_layout.id)])]
            return page_layout

    cv2 = types.ModuleType('cv2')
    cv2.IMWRITE_JPEG_QUALITY = 1

    def imread(path, flag=1):
        d, n = _os.path.split(path)
        if (d, n) not in fs.files:
            return None
        return Image(n)

    def imwrite(path, img, params=None):
        d, n = _os.path.split(path)
        kind = 'render' if d.endswith('render') else 'lines'
        event(path, (kind, n, getattr(img, 'name', None) or state.get('cur_image')))
    cv2.imread, cv2.imwrite = imread, imwrite

    osm = types.ModuleType('os')
    osm.path = types.ModuleType('os.path')
    for k in ('join', 'splitext', 'basename', 'dirname', 'split'):
        setattr(osm.path, k, getattr(_os.path, k))
    osm.path.isfile = lambda p: p == 'config.ini' or tuple(_os.path.split(p)) in fs.files
    osm.path.exists = lambda p: p in fs.dirs or tuple(_os.path.split(p)) in fs.files
    osm.makedirs = lambda p: fs.dirs.add(p)
    osm.listdir = lambda d: sorted(n for (dd, n) in fs.files if dd == d)
    return PageLayout, PageParser, cv2, osm


class FakeSection(dict):
    def get(self, k, fallback=None, **kw):
        return dict.get(self, k, fallback)

    def getboolean(self, k, fallback=False):
        return bool(dict.get(self, k, fallback))


class FakeConfig:
    def __init__(self):
        self.d = {}

    def read(self, path):
        self.d.setdefault('PAGE_PARSER', FakeSection())

    def __contains__(self, k):
        return k in self.d

    def add_section(self, k):
        self.d[k] = FakeSection()

    def __getitem__(self, k):
        return self.d[k]

    def has_option(self, s, k):
        return s in self.d and k in self.d[s]

    def has_section(self, s):
        return s in self.d


def run_task(task, patches=None):
    H = Harness(patches, extra_builtins={'print': lambda *a, **k: None})
    fs = FS()
    state = {'k': 0, 'crash': None, 'log': [], 'processed': [], 'run': 0}
    PageLayout, PageParser, cv2, osm = _make_env(H, fs, state)
    pf = H.load('user_scripts.parse_folder')
    pf.PageLayout = PageLayout
    pf.PageParser = PageParser
    pf.cv2 = cv2
    pf.os = osm
    pf.get_device = lambda *a, **k: 'cpu'
    pf.setup_logging = lambda cfg: None
    cp = types.ModuleType('configparser')
    cp.ConfigParser = FakeConfig
    pf.configparser = cp
    kinds, ids = task['kinds'], task['ids']
    ncr = task.get('crashes', 0)
    cvars = [z3.Int('crash_%d' % r) for r in range(ncr)]
    K = 'C17:%s:' % task['mode']
    dirs = {k: 'out_' + k for k in kinds}

    def args():
        ns = types.SimpleNamespace(config='config.ini', skip_processed=True, input_image_path='in', input_xml_path=None, input_logit_path=None,
                                   output_xml_path=dirs.get('xml'), output_render_path=dirs.get('render'), output_line_path=dirs.get('lines'),
                                   output_logit_path=dirs.get('logits'), output_alto_path=dirs.get('alto'), output_transcriptions_file_path=None,
                                   skipp_missing_xml=False, device='cpu', gpu_id=None, process_count=1)
        return ns
    pf.parse_arguments = args

    def expected_files():
        out = {}
        for p in ids:
            img = p + '.jpg'
            for k in kinds:
                if k == 'lines':
                    for l in _lines_of(p):
                        out[(dirs[k], '%s-%s.jpg' % (p, l))] = ('lines', '%s-%s.jpg' % (p, l), None)
                else:
                    out[(dirs[k], p + EXT[k])] = (k, p, img)
        return out

    def case(m_, **kw):
        c = {'mode': task['mode'], 'kinds': kinds, 'ids': ids, 'crash_at': [mv(m_, S(v)) for v in cvars]}
        c.update(kw)
        return c

    def one_run(r, crash):
        state['k'] = 0
        state['run'] = r
        state['crash'] = crash
        before = set(fs.files)
        try:
            pf.main()
            return 'finished', before
        except Crash:
            return 'killed', before

    def body():
        fs.files.clear()
        fs.dirs.clear()
        del state['log'][:]
        del state['processed'][:]
        for p in ids:
            fs.files[('in', p + '.jpg')] = ('input', p)
        runs = []
        if task['mode'] == 'complete':
            r0 = one_run(0, z3.IntVal(-1))
            runs.append(r0)
            r1 = one_run(1, z3.IntVal(-1))
            runs.append(r1)
            return runs
        for r in range(ncr):
            core.assume(z3.And(cvars[r] >= 0, cvars[r] <= 40))
            runs.append(one_run(r, cvars[r]))
        runs.append(one_run(ncr, z3.IntVal(-1)))
        return runs

    if task.get('split_only'):
        return H.result(prefixes=H.split(body, task['split_only']))
    exp = expected_files()
    for p, res, exc in H.explore(body, root=task.get('prefix')):
        if exc is not None:
            cls = type(exc).__name__
            H.fail(K + 'run-fails:' + cls, 'a run of the batch ended with %s: %s' % (cls, str(exc)[:80]), lambda m_: case(m_, error=repr(exc)[:200]))
            continue
        runs = res
        if runs[-1][0] != 'finished':
            H.fail(K + 'final-run-killed', 'harness: the uninterrupted run was killed', lambda m_: case(m_))
            continue
        # (1) every requested output of every page present and equal to that of an uninterrupted run
        missing = [k for k in exp if k not in fs.files]
        if missing:
            kinds_missing = sorted({(d[4:]) for d, n in missing})
            H.fail(K + 'output-missing:' + '+'.join(kinds_missing), 'after the final resumed run these requested outputs are missing: %r' % (sorted(missing)[:4],),
                   lambda m_: case(m_, missing=[list(x) for x in sorted(missing)]))
            continue
        wrong = [k for k in exp if exp[k][2] is not None and fs.files[k][2] != exp[k][2]]
        if wrong:
            H.fail(K + 'output-from-wrong-page', 'an output was computed from another page\'s image: %r' % ([(k, fs.files[k]) for k in wrong][:2],),
                   lambda m_: case(m_, wrong=[list(x) for x in wrong]))
            continue
        # (2) pages whose outputs were all complete at the start of a run are not processed again in that run
        redo = []
        for r, (status, before) in enumerate(runs):
            for pg in ids:
                need = [k for k in exp if (k[1] == pg + EXT.get(k[0][4:], '') and k[0][4:] != 'lines') or (k[0][4:] == 'lines' and k[1].startswith(pg + '-'))]
                if need and all(k in before for k in need) and (r, pg) in state['processed']:
                    redo.append((r, pg))
        if redo:
            H.fail(K + 'complete-page-reprocessed:' + '+'.join(kinds), 'a page whose requested outputs were all present was processed again: %r' % (redo[:3],),
                   lambda m_: case(m_, redo=[list(x) for x in redo]))
        H.witness(lambda m_: case(m_, expect=sorted([list(k) for k in fs.files if k[0] != 'in'])))
    return H.result()


_F = 'user_scripts/parse_folder.py'


def canaries(tier):
    q = [t for t in tasks('quick') if t['mode'] == 'resume' and t['ids'] == ['p1', 'p2']]
    return [
        {'name': 'done-ness is the union over the output folders',
         'patches': [(_F, 'already_processed = already_processed.intersection(files)', 'already_processed = already_processed.union(files)')], 'tasks': q},
        {'name': 'skip test inverted for the image list',
         'patches': [(_F, 'images_to_process = [image for id, image in zip(ids_to_process, images_to_process) if id not in already_processed_files]',
                      'images_to_process = [image for id, image in zip(ids_to_process, images_to_process) if id in already_processed_files]')], 'tasks': q, 'error_counts': True},
        {'name': 'ids filtered before the image list (images paired with the wrong ids)',
         'patches': [(_F, '            images_to_process = [image for id, image in zip(ids_to_process, images_to_process) if id not in already_processed_files]\n            ids_to_process = [id for id in ids_to_process if id not in already_processed_files]',
                      '            ids_to_process = [id for id in ids_to_process if id not in already_processed_files]\n            images_to_process = [image for id, image in zip(ids_to_process, images_to_process) if id not in already_processed_files]')],
         'tasks': q},
    ]

"""C15 -- stitching the parts of an over-long line never loses text.

Symbolic execution of merge_transcriptions_and_logits / find_best_overlap
(pero_ocr/ocr_engine/line_ocr_engine.py) and levenshtein_distance over part
transcriptions made of symbolic characters (every equality pattern) with
provenance-labelled logit rows.
"""
import itertools
import z3

from symx import core
from symx.core import S, SChar
from symx.sstr import SStr
from symx import symnp
from symx.harness import Harness, mv

ID = 'C15'

META = {
    'functions': [
        'pero_ocr/ocr_engine/line_ocr_engine.py:merge_transcriptions_and_logits',
        'pero_ocr/ocr_engine/line_ocr_engine.py:find_best_overlap',
        'pero_ocr/sequence_alignment.py:levenshtein_distance',
    ],
    'bounds': {
        'quick': 'end-to-end: 1..2 parts of length 0..3 (all length tuples), characters symbolic (every equality '
                 'pattern), logits with len(part)+{0,2} rows; merge with the overlap detector replaced by an arbitrary '
                 'admissible overlap: 1..3 parts of length 0..3',
        'thorough': 'end-to-end: 2 parts of length 0..4 and 3 parts of length 0..3 (cap 2 on the middle part); arbitrary-overlap merge: 1..4 parts of length 0..4',
    },
    'assumptions': [
        'characters are compared by equality only (symbolic integer codes)',
        'logit rows are opaque provenance labels; logits of a part have at least as many rows as characters',
        "'at most half of the overlap' is read as the code's split: ceil(o/2) cut from the left part, floor(o/2) from the right one",
    ],
    'outside': ['parts longer than the bound; the window splitting inside process_lines (C07)'],
    'stubs': ['numpy -> symx.symnp; in the arbitrary-overlap harness find_best_overlap returns any integer in [0, min(len(left), len(right))]'],
}


def tasks(tier):
    ts = []
    if tier == 'quick':
        for n in range(0, 4):
            ts.append({'mode': 'e2e', 'lens': [n], 'extra': 2})
        for a, b in itertools.product(range(4), repeat=2):
            ts.append({'mode': 'e2e', 'lens': [a, b], 'extra': 0 if (a + b) % 2 else 2})
        for k in (1, 2, 3):
            for lens in itertools.product(range(4), repeat=k):
                if k == 3 and max(lens) > 2 and min(lens) > 1:
                    continue
                ts.append({'mode': 'anyov', 'lens': list(lens), 'extra': 1})
    else:
        for n in range(0, 5):
            ts.append({'mode': 'e2e', 'lens': [n], 'extra': 2})
        for a, b in itertools.product(range(5), repeat=2):
            ts.append({'mode': 'e2e', 'lens': [a, b], 'extra': 0 if (a + b) % 2 else 2})
        for a, b, c in itertools.product(range(4), range(3), range(4)):
            ts.append({'mode': 'e2e', 'lens': [a, b, c], 'extra': 0})
        for k in (1, 2, 3, 4):
            for lens in itertools.product(range(5), repeat=k):
                if k == 4 and max(lens) > 3:
                    continue
                ts.append({'mode': 'anyov', 'lens': list(lens), 'extra': 1})
    ts.sort(key=lambda t: -sum(x * x for x in t['lens']))
    return ts


def run_task(task, patches=None):
    H = Harness(patches)
    mod = H.load('pero_ocr.ocr_engine.line_ocr_engine')
    lens = task['lens']
    extra = task['extra']
    parts = [SStr.fresh('p%d' % i, n) for i, n in enumerate(lens)]
    owner = {}
    for i, p in enumerate(parts):
        for j, ch in enumerate(p.c):
            owner[id(ch)] = (i, j)
    logits = [symnp.A(['p%dr%d' % (i, j) for j in range(n + extra)], (n + extra, 1)) for i, n in enumerate(lens)]
    overlaps = []
    real_fbo = mod.find_best_overlap

    def fbo_record(t1, t2):
        if task['mode'] == 'anyov':
            o = S(z3.Int(core.fresh_name('ov')))
            core.assume(z3.And(o.e >= 0, o.e <= min(len(t1), len(t2))))
            o = o.__index__()
        else:
            o = real_fbo(t1, t2)
        overlaps.append(o)
        return o
    mod.find_best_overlap = fbo_record

    def case(m_, **kw):
        c = {'mode': task['mode'], 'parts': [[mv(m_, ch) for ch in p.c] for p in parts], 'extra': extra,
             'overlaps': list(overlaps)}
        c.update(kw)
        return c

    def body():
        del overlaps[:]
        return mod.merge_transcriptions_and_logits(list(parts), list(logits))

    K = 'C15:%s:' % task['mode']
    for p, res, exc in H.explore(body):
        if exc is not None:
            H.fail(K + 'exception:' + type(exc).__name__, 'raised %r' % (exc,), lambda m_: case(m_))
            continue
        text, lg = res
        chars = list(text.c) if isinstance(text, SStr) else list(text)
        ov = list(overlaps)
        got = lambda m_: {'text_owner': [list(owner.get(id(ch), (-1, -1))) for ch in chars], 'rows': list(lg.d)}
        exp_len = sum(lens) - sum(ov)
        ok = True
        if len(chars) != exp_len:
            ok = H.fail(K + 'length', 'merged length %d != sum of part lengths %d - detected overlaps %d'
                        % (len(chars), sum(lens), sum(ov)), lambda m_: case(m_, got=got(m_)))
        # begins with the first part less at most ceil(o1/2)
        if ok:
            o1 = ov[0] if ov else 0
            keep0 = lens[0] - (o1 - o1 // 2)
            guard = True
            if len(ov) >= 2:
                # later cuts must not reach back into the first part's retained text
                cur = lens[0]
                for i in range(1, len(lens)):
                    o = ov[i - 1]
                    left_keep = cur - (o - o // 2)
                    if left_keep < keep0:
                        guard = False
                    cur = left_keep + lens[i] - o // 2
            if guard and not all(i < len(chars) and chars[i] is parts[0].c[i] for i in range(keep0)):
                ok = H.fail(K + 'first-part', 'result does not begin with the first part less ceil(overlap/2) characters',
                            lambda m_: case(m_, got=got(m_)))
        if ok and len(lens) >= 1:
            ol = ov[-1] if ov else 0
            tail = parts[-1].c[ol // 2:]
            if not (len(chars) >= len(tail) and all(a is b for a, b in zip(chars[len(chars) - len(tail):], tail))):
                ok = H.fail(K + 'last-part', 'result does not end with the last part (less floor(overlap/2))',
                            lambda m_: case(m_, got=got(m_)))
        if ok:
            rows = list(lg.d)
            if lg.shape[0] != len(chars):
                ok = H.fail(K + 'logit-rows', 'merged logits have %d rows for %d characters' % (lg.shape[0], len(chars)),
                            lambda m_: case(m_, got=got(m_)))
            elif any(rows[j] != 'p%dr%d' % owner[id(ch)] for j, ch in enumerate(chars)):
                ok = H.fail(K + 'logit-provenance', 'a logit row does not belong to the character at its position',
                            lambda m_: case(m_, got=got(m_)))
        if ok and ov and all(o == 0 for o in ov):
            flat = [ch for p_ in parts for ch in p_.c]
            if not (len(flat) == len(chars) and all(a is b for a, b in zip(flat, chars))):
                H.fail(K + 'concat', 'parts without overlap are not concatenated unchanged', lambda m_: case(m_, got=got(m_)))
        H.witness(lambda m_: case(m_, expect=got(m_)))
    return H.result()


_F = 'pero_ocr/ocr_engine/line_ocr_engine.py'


def canaries(tier):
    q = tasks('quick')
    e2e = [t for t in q if t['mode'] == 'e2e']
    anyov = [t for t in q if t['mode'] == 'anyov' and len(t['lens']) <= 2]
    return [
        {'name': 'left cut -overlap // 2 (drops everything when overlap is 0)',
         'patches': [(_F, 'left_cut = len(result_transcription) - (overlap - overlap // 2)', 'left_cut = -overlap // 2')],
         'tasks': e2e},
        {'name': 'overlap // 2 cut on both sides (odd overlaps keep one character twice)',
         'patches': [(_F, 'left_cut = len(result_transcription) - (overlap - overlap // 2)', 'left_cut = len(result_transcription) - overlap // 2')],
         'tasks': anyov},
        {'name': 'logits not shrunk to the text length',
         'patches': [(_F, 'logits_parts_shrinked.append(logits[:len(transcription)])', 'logits_parts_shrinked.append(logits)')],
         'tasks': anyov},
        {'name': 'best overlap accepts cer <= best (prefers longer, equally bad overlaps; still consistent: negative control)',
         'patches': [(_F, 'if cer < best_cer:', 'if cer <= best_cer and cer < 1:')],
         'tasks': e2e, 'expect': False},
    ]

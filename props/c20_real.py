"""C20 replay against the real torch modules: a random-weight Decoder of the given shape, decoded step by step with caches,
without caches and through the masked (teacher-forced) forward pass, after the given history on the same model."""
import torch

from pero_ocr.ocr_engine import transformer as tr
from pero_ocr.ocr_engine.transformer_ocr_engine import TransformerEngineLineOCR

TOL = 1e-4


def _decode(case):
    torch.manual_seed(1234)
    layers, heads, N, steps, S_ = case['layers'], case['heads'], case['N'], case['steps'], case['S']
    emb = 8 * heads
    maxlen = steps + 3
    dec = tr.Decoder(layers, emb, heads, 16, 0.0, max_seq_len=maxlen).eval()
    import copy
    plain = copy.deepcopy(dec)
    full = copy.deepcopy(dec)
    bad = []
    with torch.no_grad():
        hist = case['hist']
        if hist != 'fresh':
            n0 = N if hist in ('same', 'longer') else (N % 2) + 1
            t0 = steps + 1 if hist == 'longer' else 2
            mem0, x0 = torch.randn(S_, n0, emb), torch.randn(t0, n0, emb)
            for t in range(1, t0 + 1):
                dec.infer(x0[:t], mem0, is_cached=True)
        mem, x = torch.randn(S_, N, emb), torch.randn(steps, N, emb)
        mask = torch.triu(torch.full((steps, steps), -float('inf')), diagonal=1)
        ref = full(x, mem, tgt_mask=mask)
        solo = copy.deepcopy(full)
        for t in range(1, steps + 1):
            oc = dec.infer(x[:t].clone(), mem, is_cached=True).clone()
            ou = plain.infer(x[:t].clone(), mem, is_cached=False).clone()
            if (oc - ou).abs().max() > TOL:
                bad.append('step %d: cached differs from recomputed by %g' % (t, float((oc - ou).abs().max())))
            if (oc - ref[t - 1]).abs().max() > TOL:
                bad.append('step %d: cached differs from the masked forward by %g' % (t, float((oc - ref[t - 1]).abs().max())))
            # independence of the other lines of the batch
            if N > 1:
                o1 = solo.infer(x[:t, :1].clone(), mem[:, :1], is_cached=False)
                if (o1[0] - oc[0]).abs().max() > TOL:
                    bad.append('step %d: line 0 depends on the other lines of its batch' % t)
    return bad


def _post(case):
    e = object.__new__(TransformerEngineLineOCR)
    labels = [int(x) for x in case['labels']]
    out = e.postprocess_decoded(torch.tensor([labels]), 8, 7)[0].tolist()
    exp = []
    for s in labels:
        if s == 7:
            break
        if s != 8:
            exp.append(s)
    return out, (None if out == exp else 'postprocess %r -> %r, expected %r' % (labels, out, exp))


class _StubNet:
    """stand-in network whose arg-max symbol for a line depends on that line and on the number of symbols it was fed: the table of the case"""

    def __init__(self, table, vocab=4):
        self.table, self.vocab = table, vocab

        class _Dec:
            @staticmethod
            def infer(x, enc, is_cached=False):
                # x: (steps, N, 1) fed tokens; enc: (1, N, 1) line ids
                t = x.shape[0]
                return torch.stack([torch.full((x.shape[1],), float(t)), enc[0, :, 0]], dim=1)
        self.trans_decoder = _Dec()

    def encode(self, lines):
        ids = torch.round(lines[:, 0, 0, 0] * 255.0)
        return ids.reshape(1, -1, 1)

    def dec_embeder(self, tokens):
        return tokens.float().unsqueeze(-1)

    def pos_encoder(self, x):
        return x

    def dec_out_proj(self, z):
        out = torch.zeros((z.shape[0], self.vocab))
        for n in range(z.shape[0]):
            t, line = int(z[n, 0].item()), int(z[n, 1].item())
            seq = self.table[line]
            out[n, seq[min(t - 1, len(seq) - 1)]] = 1.0
        return out


def _greedy(case):
    import numpy as np
    N, cap = int(case['N']), int(case['cap'])
    table = [[int(v) for v in seq] for seq in case['samples']]

    def run(ids):
        e = object.__new__(TransformerEngineLineOCR)
        e.device = torch.device('cpu')
        e.characters = ['a', 'b', '\u200b', '']
        e.sentence_boundary_ind, e.ignore_ind = 2, 3
        e.net = _StubNet(table)
        inp = np.zeros((len(ids), 3, 4, 4 * cap), dtype=np.uint8)
        for i, n in enumerate(ids):
            inp[i] = n
        import contextlib, io
        with contextlib.redirect_stdout(io.StringIO()), torch.no_grad():
            outs, _ = e.transcribe_batch(inp, is_cached=True)
        return [o.tolist() for o in outs]
    together = run(list(range(N)))
    bad = []
    for n in range(N):
        alone = run([n])[0]
        if alone != together[n]:
            bad.append('line %d: %r inside the batch, %r when decoded alone (network emits %r)' % (n, together[n], alone, table[n]))
        if any(s in (2, 3) for s in together[n]):
            bad.append('line %d: transcription %r contains the boundary / ignore symbol' % (n, together[n]))
    return together, bad


def replay(case):
    try:
        if case['mode'] == 'greedy':
            out, bad = _greedy(case)
            return {'reproduced': bool(bad), 'detail': '; '.join(bad[:3]) or 'ok'}
        if case['mode'] == 'postprocess':
            out, bad = _post(case)
            return {'reproduced': bad is not None, 'detail': bad or 'ok'}
        bad = _decode(case)
    except Exception as e:
        return {'reproduced': True, 'detail': 'raised %r' % (e,)}
    return {'reproduced': bool(bad), 'detail': '; '.join(bad[:3]) or 'ok'}


def check_witness(w):
    if w['mode'] == 'greedy':
        out, bad = _greedy(w)
        exp = [[int(x) for x in line] for line in w['expect']]
        return {'match': not bad and out == exp, 'got': out, 'bad': bad[:2]}
    if w['mode'] == 'postprocess':
        out, bad = _post(w)
        return {'match': bad is None and out == [int(x) for x in w['expect']], 'got': out}
    bad = _decode(w)
    return {'match': not bad, 'bad': bad[:3]}

"""C14 -- confusion networks keep every hypothesis as an ordered path.

Symbolic execution of pero_ocr/decoding/confusion_networks.py (with
levenshtein_alignment_path) on histories of hypotheses made of symbolic
characters (every equality pattern: prefixes/suffixes of one another, repeated
symbols ...) with symbolic positive scores.  The network is the code's own
list of real dicts keyed by SChar / None.
"""
import itertools
import z3

from symx import core
from symx.core import S, SChar
from symx.sstr import SStr
from symx.harness import Harness, mv

ID = 'C14'

META = {
    'functions': [
        'pero_ocr/decoding/confusion_networks.py:get_pivot',
        'pero_ocr/decoding/confusion_networks.py:add_hypothese',
        'pero_ocr/decoding/confusion_networks.py:normalize_cn',
        'pero_ocr/decoding/confusion_networks.py:produce_cn_from_boh',
        'pero_ocr/decoding/confusion_networks.py:best_cn_path',
        'pero_ocr/decoding/confusion_networks.py:sorted_cn_paths',
        'pero_ocr/sequence_alignment.py:levenshtein_alignment_path',
        'pero_ocr/decoding/bag_of_hypotheses.py:BagOfHypotheses',
    ],
    'bounds': {
        'quick': 'histories of 1..2 hypotheses of length 0..3 and 3 hypotheses of length 0..2 (all length tuples, i.e. '
                 'every addition order), symbolic characters (every equality pattern), symbolic scores > 0; '
                 'normalisation and path enumeration on networks of <= 3 positions x <= 2 arcs with symbolic weights '
                 '(the final ordering clause only for networks with <= 4 paths: beyond that python sorted() is trusted); '
                 'bags of 2 hypotheses with and without LM scores',
        'thorough': '2 hypotheses of length 0..4 (total <= 7), 3 hypotheses of length 0..3 (total <= 8); networks <= 3 positions x <= 3 arcs',
    },
    'assumptions': [
        'characters compared by equality only; scores are exact reals > 0',
        'math.exp is an uninterpreted positive strictly increasing function (only positivity matters here)',
    ],
    'outside': ['longer hypotheses / more than 3 hypotheses; float round-off in normalisation'],
    'stubs': ['numpy -> symx.symnp', 'math.exp -> uninterpreted monotone function'],
}


def tasks(tier):
    ts = []
    if tier == 'quick':
        for n in range(4):
            ts.append({'mode': 'hist', 'lens': [n]})
        for a, b in itertools.product(range(4), repeat=2):
            ts.append({'mode': 'hist', 'lens': [a, b]})
        for lens in itertools.product(range(3), repeat=3):
            ts.append({'mode': 'hist', 'lens': list(lens)})
        shapes = [[1], [2], [2, 2], [1, 2, 2], [2, 1], [2, 2, 2]]
    else:
        for n in range(5):
            ts.append({'mode': 'hist', 'lens': [n]})
        for a, b in itertools.product(range(5), repeat=2):
            if a + b <= 7:
                ts.append({'mode': 'hist', 'lens': [a, b]})
        for lens in itertools.product(range(4), repeat=3):
            if sum(lens) <= 8:
                ts.append({'mode': 'hist', 'lens': list(lens)})
        shapes = [[1], [2], [3], [2, 2], [3, 2], [2, 3], [1, 2, 2], [2, 2, 2], [3, 3], [2, 2, 3]]
    for sh in shapes:
        ts.append({'mode': 'paths', 'arcs': sh})
    # every position offers the same arcs (epsilon and the same symbols): different arc combinations spell the same string
    for sh in ([2, 2], [2, 2, 2]) + (([3, 2],) if tier != 'quick' else ()):
        ts.append({'mode': 'paths', 'arcs': list(sh), 'keys': 'same'})
    for lm in (False, True, 'mixed'):
        ts.append({'mode': 'boh', 'lens': [2, 2], 'lm': lm})
        ts.append({'mode': 'boh', 'lens': [1, 2], 'lm': lm})
    # bags that begin with the empty transcript (its mass has no arc of its own: the known finding), then non-empty ones
    ts.append({'mode': 'boh', 'lens': [0, 2], 'lm': False})
    ts.append({'mode': 'boh', 'lens': [0, 1, 1], 'lm': True})
    ts.sort(key=lambda t: -sum(x * x for x in t.get('lens', [1])))
    return ts


# -- oracle ---------------------------------------------------------------------

def keq(k, ch):
    """z3 Bool / python bool: network key k equals character ch"""
    if k is None or ch is None:
        return k is None and ch is None
    if k is ch:
        return True
    return k.e == ch.e


def readable(cn, chars):
    """z3 Bool: chars can be read from cn in order (one arc per position; None arcs read nothing)"""
    n, L = len(cn), len(chars)
    # R[i][j]: positions i.. can read chars[j:]
    R = [[None] * (L + 1) for _ in range(n + 1)]
    for j in range(L + 1):
        R[n][j] = z3.BoolVal(j == L)
    for i in range(n - 1, -1, -1):
        keys = list(cn[i].keys())
        for j in range(L, -1, -1):
            opts = []
            if any(k is None for k in keys):
                opts.append(R[i + 1][j])
            if j < L:
                for k in keys:
                    if k is None:
                        continue
                    e = keq(k, chars[j])
                    if e is False:
                        continue
                    opts.append(R[i + 1][j + 1] if e is True else z3.And(e, R[i + 1][j + 1]))
            R[i][j] = z3.Or(*opts) if opts else z3.BoolVal(False)
    return R[0][0]


def snapshot(cn):
    return [[(k, v) for k, v in pos.items()] for pos in cn]


def embeds(old, new, score, mean_total):
    """z3 Bool: `old` embeds position-wise into `new` (order kept, arcs kept);
    every pre-existing position gained exactly `score` on exactly one arc;
    inserted positions are {None: mean_total, sym: score}."""
    n_old, n_new = len(old), len(new)
    if n_new < n_old:
        return z3.BoolVal(False)
    alts = []
    sc = core.lift(score)
    for ins in itertools.combinations(range(n_new), n_new - n_old):
        conj = []
        oi = 0
        ok = True
        for i in range(n_new):
            items = list(new[i].items())
            if i in ins:
                keys = [k for k, _ in items]
                if len(items) != 2 or not any(k is None for k in keys):
                    ok = False
                    break
                for k, v in items:
                    if k is None:
                        conj.append(core.lift(v) == core.lift(mean_total))
                    else:
                        conj.append(core.lift(v) == sc)
                continue
            oldpos = old[oi]
            oi += 1
            newmap = {id(k) if k is not None else None: v for k, v in items}
            diffs = []
            for k, v in oldpos:
                kid = id(k) if k is not None else None
                if kid not in newmap:
                    ok = False
                    break
                d = core.lift(newmap.pop(kid)) - core.lift(v)
                conj.append(z3.Or(d == 0, d == sc))
                diffs.append(d)
            if not ok:
                break
            extra = list(newmap.values())
            if len(extra) > 1:
                ok = False
                break
            tot = z3.RealVal(0)
            for d in diffs:
                tot = tot + d
            for v in extra:
                conj.append(core.lift(v) == sc)
                tot = tot + core.lift(v)
            conj.append(tot == sc)
        if ok:
            alts.append(z3.And(*conj) if conj else z3.BoolVal(True))
    return z3.Or(*alts) if alts else z3.BoolVal(False)


def cn_json(m_, cn):
    return [[[None if k is None else mv(m_, k), mv(m_, v)] for k, v in pos.items()] for pos in cn]


def run_task(task, patches=None):
    H = Harness(patches)
    mod = H.load('pero_ocr.decoding.confusion_networks')
    if task['mode'] == 'hist':
        return _run_hist(H, mod, task)
    if task['mode'] == 'paths':
        return _run_paths(H, mod, task)
    return _run_boh(H, mod, task)


def _run_hist(H, mod, task):
    lens = task['lens']
    hyps = [SStr.fresh('h%d' % i, n) for i, n in enumerate(lens)]
    scores = [S(z3.Real('w%d' % i)) for i in range(len(lens))]
    trace = {}

    def case(m_, **kw):
        c = {'mode': 'hist', 'hyps': [[mv(m_, ch) for ch in h.c] for h in hyps], 'scores': mv(m_, scores)}
        c.update(kw)
        return c

    def body():
        for w in scores:
            core.assume(z3.And(w.e > 0, w.e <= 16))
        cn = []
        snaps = []
        for h, w in zip(hyps, scores):
            before = snapshot(cn)
            mean_total = (sum(sum(v for _, v in pos) for pos in before) / len(before)) if before else None
            cn = mod.add_hypothese(cn, h, w)
            snaps.append((before, mean_total, snapshot(cn), cn))
        trace['snaps'] = snaps
        return cn

    for p, res, exc in H.explore(body):
        if exc is not None:
            H.fail('C14:add:exception:' + type(exc).__name__, 'raised %r' % (exc,), lambda m_: case(m_))
            continue
        ok = True
        lost = set()
        for step, (before, mean_total, after, cn_obj) in enumerate(trace['snaps']):
            aft = [dict(pos) for pos in after]
            if not before:
                # first hypothesis into an empty network: one position per symbol
                if [list(d.keys()) for d in aft] != [[ch] for ch in hyps[step].c] and not (len(aft) == len(hyps[step])):
                    ok = H.fail('C14:add:first', 'network built from a single hypothesis is not that hypothesis',
                                lambda m_: case(m_, step=step, cn=cn_json(m_, aft)))
                    break
            # (a) all hypotheses added so far are readable in order
            for j in range(step + 1):
                if j in lost:
                    continue
                if not before and j < step:
                    # an empty hypothesis added to a still-empty network leaves no trace (cn stays []):
                    # separate, narrowly keyed obligation (known finding, see DESIGN.md section 7)
                    lost.add(j)
                    H.claim(readable(aft, hyps[j].c), 'C14:add:empty-hypothesis-lost',
                            'an empty hypothesis added to a still-empty network is not readable once a non-empty one follows',
                            lambda m_: case(m_, step=step, which=j, cn=cn_json(m_, aft)))
                    continue
                if not H.claim(readable(aft, hyps[j].c), 'C14:add:unreadable',
                               'a hypothesis added to the network cannot be read from it in its symbol order',
                               lambda m_: case(m_, step=step, which=j, cn=cn_json(m_, aft))):
                    ok = False
                    break
            if not ok:
                break
            # (b)+(c) embedding and weight bookkeeping
            if before:
                if not H.claim(embeds(before, aft, scores[step], mean_total), 'C14:add:weights',
                               'old network does not embed in the new one with exactly the added score on one arc per position',
                               lambda m_: case(m_, step=step, before=cn_json(m_, [dict(p_) for p_ in before]), cn=cn_json(m_, aft))):
                    ok = False
                    break
        if not ok:
            continue
        final = res
        # (d) normalisation
        if final:
            import copy
            cnn = mod.normalize_cn([dict(pos) for pos in final])
            conj = [sum(core.lift(v) for v in pos.values()) == 1 for pos in cnn]
            H.claim(z3.And(*conj), 'C14:normalize:sum', 'weights of a position do not sum to 1 after normalisation',
                    lambda m_: case(m_, cn=cn_json(m_, cnn)))
        # (f) single hypothesis reads back
        if len(lens) == 1:
            best = mod.best_cn_path(final)
            bl = list(best.c) if isinstance(best, SStr) else list(best)
            if not (len(bl) == len(hyps[0]) and all(a is b for a, b in zip(bl, hyps[0].c))):
                H.fail('C14:best:single', 'best path of a single-hypothesis network is not the hypothesis',
                       lambda m_: case(m_))
        H.witness(lambda m_: case(m_, expect=cn_json(m_, final)))
    return H.result()


def _run_paths(H, mod, task):
    arcs = task['arcs']
    ncombo = 1
    for k in arcs:
        ncombo *= k
    trusted_sort = ncombo > 4
    import builtins as _b

    def _sorted(it, key=None, reverse=False):
        l = list(it)
        if trusted_sort and len(l) > 4:
            return l          # final ordering of > 4 paths: python's sorted is trusted (order clause not claimed)
        return _b.sorted(l, key=key, reverse=reverse)
    mod.__dict__['sorted'] = _sorted
    alphabet = 'abc'
    cn0 = []
    ws = []
    for i, k in enumerate(arcs):
        keys = [None] + list(alphabet[:k - 1]) if (i % 2 == 1 or task.get('keys') == 'same') else list(alphabet[:k])
        pos = {}
        for j, key in enumerate(keys[:k]):
            w = S(z3.Real('p%d_%d' % (i, j)))
            ws.append(w)
            pos[key] = w
        cn0.append(pos)

    def case(m_, **kw):
        c = {'mode': 'paths', 'cn': cn_json(m_, cn0)}
        c.update(kw)
        return c

    def body():
        for pos in cn0:
            for w in pos.values():
                core.assume(w.e > 0)
            core.assume(sum(w.e for w in pos.values()) == 1)
        return mod.sorted_cn_paths([dict(pos) for pos in cn0])

    expected = []
    for combo in itertools.product(*[list(pos.items()) for pos in cn0]):
        s = ''.join(k for k, _ in combo if k is not None)
        pr = z3.RealVal(1)
        for _, w in combo:
            pr = pr * w.e
        expected.append((s, pr))

    for p, res, exc in H.explore(body):
        if exc is not None:
            H.fail('C14:paths:exception:' + type(exc).__name__, 'raised %r' % (exc,), lambda m_: case(m_))
            continue
        got = lambda m_: [[s, mv(m_, pr)] for s, pr in res]
        if len(res) != len(expected):
            H.fail('C14:paths:count', '%d paths for %d arc combinations' % (len(res), len(expected)),
                   lambda m_: case(m_, got=got(m_)))
            continue
        # each combination exactly once: bijection by string + provably equal probability
        remaining = list(expected)
        okb = True
        for s, pr in res:
            hit = None
            for idx, (es, epr) in enumerate(remaining):
                if es == s and core.prove(core.lift(pr) == epr) is None:
                    hit = idx
                    break
            if hit is None:
                okb = False
                break
            remaining.pop(hit)
        H.obligations += 1
        if not okb:
            H.fail('C14:paths:combos', 'enumerated paths are not exactly the arc combinations', lambda m_: case(m_, got=got(m_)))
            continue
        conj = [core.lift(res[i][1]) >= core.lift(res[i + 1][1]) for i in range(len(res) - 1)]
        if conj and not trusted_sort:
            H.claim(z3.And(*conj), 'C14:paths:order', 'paths are not in non-increasing probability order',
                    lambda m_: case(m_, got=got(m_)))
        H.claim(sum(core.lift(pr) for _, pr in res) == 1, 'C14:paths:total', 'path probabilities do not sum to 1',
                lambda m_: case(m_, got=got(m_)))
        H.witness(lambda m_: case(m_, expect=got(m_), unordered=trusted_sort))
    return H.result()


def _run_boh(H, mod, task):
    bohm = H.load('pero_ocr.decoding.bag_of_hypotheses')
    lens = task['lens']
    hyps = [SStr.fresh('h%d' % i, n) for i, n in enumerate(lens)]
    vis = [S(z3.Real('vis%d' % i)) for i in range(len(lens))]
    lms = [S(z3.Real('lm%d' % i)) for i in range(len(lens))]
    vw, lw = S(z3.Real('vw')), S(z3.Real('lw'))

    def lm_of(i):
        if task['lm'] is True:
            return lms[i]
        if task['lm'] == 'mixed':
            return lms[i] if i == 0 else None
        return None

    def case(m_, **kw):
        c = {'mode': 'boh', 'hyps': [[mv(m_, ch) for ch in h.c] for h in hyps], 'vis': mv(m_, vis),
             'lm': [None if lm_of(i) is None else mv(m_, lms[i]) for i in range(len(lens))],
             'vw': mv(m_, vw), 'lw': mv(m_, lw)}
        c.update(kw)
        return c

    def body():
        for v in vis + lms:
            core.assume(z3.And(v.e <= 0, v.e >= -8))
        core.assume(z3.And(vw.e >= 0, vw.e <= 2, lw.e >= 0, lw.e <= 2))
        boh = bohm.BagOfHypotheses()
        for i, h in enumerate(hyps):
            boh.add(h, vis[i], lm_of(i))
        return mod.produce_cn_from_boh(boh, visual_weight=vw, lm_weight=lw, normalize=True)

    for p, res, exc in H.explore(body):
        if exc is not None:
            H.fail('C14:boh:exception:' + type(exc).__name__, 'raised %r' % (exc,), lambda m_: case(m_))
            continue
        cn = res
        ok = True
        for j, h in enumerate(hyps):
            if j == 0 and len(hyps[0]) == 0:
                continue
            if not H.claim(readable(cn, h.c), 'C14:boh:unreadable', 'a hypothesis of the bag cannot be read from the network',
                           lambda m_: case(m_, which=j, cn=cn_json(m_, cn))):
                ok = False
        if cn:
            conj = [sum(core.lift(v) for v in pos.values()) == 1 for pos in cn]
            H.claim(z3.And(*conj), 'C14:boh:sum', 'normalised network from a bag does not sum to 1 per position',
                    lambda m_: case(m_, cn=cn_json(m_, cn)))
        H.witness(lambda m_: case(m_, expect_keys=[[None if k is None else mv(m_, k) for k in pos] for pos in cn]))
    return H.result()


_F = 'pero_ocr/decoding/confusion_networks.py'


def canaries(tier):
    q = tasks('quick')
    hist2 = [t for t in q if t['mode'] == 'hist' and len(t['lens']) == 2]
    paths = [t for t in q if t['mode'] == 'paths']
    return [
        {'name': 'append branch does not advance cn_pointer (two trailing insertions swap)',
         'patches': [(_F, "                cn.append({None: cn_total_weight, tr_sym: score})\n                cn_pointer += 1\n",
                      "                cn.append({None: cn_total_weight, tr_sym: score})\n")],
         'tasks': hist2},
        {'name': 'inserted position without the None arc weight',
         'patches': [(_F, "cn = cn[:cn_pointer] + [{None: cn_total_weight, tr_sym: score}] + cn[cn_pointer:]",
                      "cn = cn[:cn_pointer] + [{None: score, tr_sym: score}] + cn[cn_pointer:]")],
         'tasks': hist2},
        {'name': 'skipped position (direction -1) overwrites the None weight instead of adding',
         'patches': [(_F, "                cn[cn_pointer][None] += score", "                cn[cn_pointer][None] = score")],
         'tasks': [t for t in q if t['mode'] == 'hist' and len(t['lens']) == 3]},
        {'name': 'odometer without reversed() (still complete: negative control)',
         'patches': [(_F, "for rotor_index in reversed(range(len(iters))):", "for rotor_index in range(len(iters)):")],
         'tasks': paths, 'expect': False},
        {'name': 'odometer does not reset an exhausted rotor',
         'patches': [(_F, "            except StopIteration:\n                reset_iter(rotor_index)", "            except StopIteration:\n                pass")],
         'tasks': paths, 'error_counts': True},
        {'name': 'paths sorted ascending',
         'patches': [(_F, "return sorted(paths, key=lambda x: x[1], reverse=True)", "return sorted(paths, key=lambda x: x[1])")],
         'tasks': paths},
    ]

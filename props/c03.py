"""C03 -- LM fusion: the LM score is the LM's own score; the result maximises vis + scale * LM.

Same engine as C02 (decoders.py in the LogP domain, nondeterministic admissible
top-k) with a language model attached.  The LM is a stub with the LMWrapper
interface whose state IS the prefix and whose per-character score is a fresh
real variable per (prefix, character): an arbitrary history-dependent LM.
lm_scale in [0, 3] and insertion_bonus >= 0 are symbolic reals.
"""
import itertools
import os
import z3

from symx import core
from symx.core import S, SB
from symx import symnp
from symx.logp import LP
from symx import logp
from symx.harness import Harness, mv
from props import c02

ID = 'C03'

META = {
    'functions': [
        'pero_ocr/decoding/decoders.py:CTCPrefixLogRawNumpyDecoder.__call__ (LM paths: init_h, model_eos, return_h)',
        'pero_ocr/decoding/decoders.py:CTCPrefixLogRawNumpyDecoder.compute_Plm',
        'pero_ocr/decoding/decoders.py:update_lm_things',
        'pero_ocr/decoding/decoders.py:build_boh',
        'pero_ocr/decoding/bag_of_hypotheses.py:BagOfHypotheses.total_scores',
        'pero_ocr/decoding/bag_of_hypotheses.py:BagOfHypotheses.posteriors',
        'pero_ocr/decoding/bag_of_hypotheses.py:BagOfHypotheses.confidence',
        'pero_ocr/decoding/bag_of_hypotheses.py:BagOfHypotheses.best_hyp',
        'pero_ocr/decoding/multisort.py:top_k',
    ],
    'bounds': {
        'quick': 'T <= 2 frames (T = 3 for k = 2), C = 3, beam width k in {1, 2, 3}, non-pruning selector, model_eos on/off, init_h given or not, '
                 'lm_scale symbolic in [0,3], insertion bonus symbolic >= 0, every LM (one free real per (prefix, character) and per end-of-line); '
                 'bags of 2..3 hypotheses with symbolic scores, LM score present / absent, symbolic weight',
        'thorough': 'T = 3 for k <= 2 (all eos / init combinations), C = 3; T = 2 with C = 4; bags of up to 4 hypotheses',
    },
    'assumptions': [
        'as C02; the LM is deterministic and its score depends on (start state, prefix, next character) only',
        'ranking uses vis * exp(scale * lm) with exp an uninterpreted positive increasing function: the bookkeeping claims hold for ANY selection, so the abstraction cannot cause a false alarm',
    ],
    'outside': ['the torch LMWrapper itself; numerical LM scores; round-off; which beam the ranking keeps (C02 decides that for the visual score)'],
    'stubs': ['np.argmax over scores -> nondeterministic admissible choice (any maximal index)', 'language model -> prefix-state stub with uninterpreted scores', 'np.argpartition -> nondeterministic admissible top-k',
              'BagOfHypotheses.sort -> no-op', 'lm_scale * score -> named product with lazy definition'],
}


def tasks(tier):
    ts = []
    if tier == 'quick':
        combos = [(1, 1), (1, 2), (2, 1), (2, 2), (2, 3), (3, 2)]
    else:
        combos = [(1, 1), (1, 2), (2, 1), (2, 2), (2, 3), (3, 1), (3, 2)]
    for T, k in combos:
        for eos in (False, True):
            for init in (False, True):
                if tier == 'quick' and T == 3 and (eos != init):
                    continue
                t = {'mode': 'lm', 'T': T, 'C': 3, 'k': k, 'eos': eos, 'init': init}
                if T == 3 and k >= 2:
                    t['split'] = 48
                ts.append(t)
    if tier != 'quick':
        for k in (1, 2):
            ts.append({'mode': 'lm', 'T': 2, 'C': 4, 'k': k, 'eos': True, 'init': False})
    for T, k in [(1, 2), (2, 2)] + ([(3, 2)] if tier != 'quick' else []):
        ts.append({'mode': 'scale0', 'T': T, 'C': 3, 'k': k})
    ts.append({'mode': 'scale0', 'T': 2, 'C': 3, 'k': 2, 'eos': True, 'init': True})
    for n in (2, 3) + ((4,) if tier != 'quick' else ()):
        for lm in ('all', 'none', 'mixed'):
            ts.append({'mode': 'bag', 'n': n, 'lm': lm})
    ts.sort(key=lambda t: -(t.get('T', 1) ** 3) * t.get('k', 1))
    return ts


class _NpProxy:
    """numpy facade of the decoder module with argmax over symbolic scores as a nondeterministic admissible choice
    (index i with score_i >= every other score, the constraint going lazily into the path condition): every
    tie-break, and no solver call for the nonlinear ranking terms"""

    def __getattr__(self, name):
        return getattr(symnp, name)

    def argmax(self, a, axis=None):
        a = symnp.asarray(a)
        if axis is not None or not any(isinstance(x, LP) for x in a.d):
            return symnp.argmax(a, axis)
        fin = [i for i, x in enumerate(a.d) if isinstance(x, LP) and not x.zero]
        if not fin:
            return 0
        g = core.guide()
        if g is not None:
            vals = {i: g.value(S(a.d[i].p)) for i in fin}
            return max(fin, key=lambda i: (vals[i], -i))
        i = fin[core.choose(len(fin))]
        cons = [core.zb(a.d[i] >= a.d[j]) for j in fin if j != i]
        if cons:
            core.assume(z3.And(*cons), check=False)
        return i


class HS:
    """LM state = list of prefixes (one per beam entry)"""

    def __init__(self, states):
        self.states = list(states)

    def _idx(self, idx):
        if isinstance(idx, (list, tuple)):
            return [symnp._to_index(i) for i in idx]
        if isinstance(idx, symnp.A):
            return [symnp._to_index(i) for i in idx.d]
        return [symnp._to_index(idx)]

    def __getitem__(self, idx):
        return HS([self.states[i] for i in self._idx(idx)])

    def __setitem__(self, idx, other):
        for i, s in zip(self._idx(idx), other.states):
            self.states[i] = s

    def __bool__(self):
        return True


class StubLM:
    def __init__(self, nchars, start):
        self.nchars = nchars
        self.start = start
        self.used = {}

    def score(self, prefix, c):
        v = z3.Real('lm[%s|%s>%d]' % (self.start, ','.join(map(str, prefix)), c))
        self.used[(prefix, c)] = v
        return S(v)

    def eos(self, prefix):
        v = z3.Real('lm[%s|%s>eos]' % (self.start, ','.join(map(str, prefix))))
        return S(v)

    def initial_h(self, batch_size):
        assert batch_size == 1
        return HS([()])

    def log_probs(self, h):
        return symnp.A([self.score(st, c) for st in h.states for c in range(self.nchars)], (len(h.states), self.nchars))

    def advance_h0(self, x, h0):
        xs = [symnp._to_index(i) for i in (x.d if isinstance(x, symnp.A) else x)]
        assert len(xs) == len(h0.states)
        return HS([st + (c,) for st, c in zip(h0.states, xs)])

    def eos_scores(self, h):
        return symnp.A([self.eos(st) for st in h.states], (len(h.states),))

    def __bool__(self):
        return True


def run_task(task, patches=None):
    H = Harness(patches, timeout_ms=60000)
    H.ctx.lazy_products = True
    # path conditions are polynomial (products over frames times exp terms): a branch that the linear literals alone decide is not sent to the full solver
    H.ctx.light_first = not os.environ.get("NO_LIGHT")
    if task['mode'] == 'bag':
        return _run_bag(H, task)
    dec = H.load('pero_ocr.decoding.decoders')
    dec.BagOfHypotheses.sort = lambda self: None
    dec.np = _NpProxy()
    T, C, k = task['T'], task['C'], task['k']
    scale0 = task['mode'] == 'scale0'
    eos, init = task.get('eos', False), task.get('init', False)
    letters = [chr(97 + i) for i in range(C - 1)] + [dec.BLANK_SYMBOL]
    pv = [[z3.Real('p_%d_%d' % (t, c)) for c in range(C)] for t in range(T)]
    scale = S(z3.Real('lm_scale'))
    bonus = S(z3.Real('insertion_bonus'))
    rec = {'selections': [], 'totals': []}
    symnp.argpartition = c02._argpartition_stub(rec)
    symnp.partition = c02._partition_stub(rec)
    K = 'C03:%s:' % task['mode']
    lm = StubLM(C - 1, 'given' if init else 'initial')
    real_topk = dec.top_k

    def topk(a, k, reverse=False):
        rec['totals'].append(a.copy())
        return real_topk(a, k, reverse)
    dec.top_k = topk

    def case(m_, **kw):
        c = {'mode': task['mode'], 'T': T, 'C': C, 'k': k, 'eos': eos, 'init': init,
             'P': [[mv(m_, S(x)) for x in row] for row in pv], 'lm_scale': 0 if scale0 else mv(m_, scale), 'bonus': mv(m_, bonus),
             'lm': {name: mv(m_, S(v)) for name, v in _lmvars(lm).items()}}
        c.update(kw)
        return c

    def body():
        del rec['selections'][:]
        del rec['totals'][:]
        for row in pv:
            for x in row:
                core.assume(x > 0)
                logp.declare_pos(x)
            core.assume(sum(row) == 1)
        # scale 0 is the scale0 tasks (a concrete 0, as a configuration file gives it); here 0 < scale <= 3
        core.assume(z3.And(scale.e > 0, scale.e <= 3))
        core.assume(bonus.e >= 0)
        M = symnp.A([LP(pv[t][c]) for t in range(T) for c in range(C)], (T, C))
        d = dec.CTCPrefixLogRawNumpyDecoder(letters, k, lm=lm, lm_scale=(0 if scale0 else scale), insertion_bonus=bonus,
                                            relevant_logits_selector=lambda l: (symnp.arange(len(l)),))
        kw = {}
        if init:
            kw['init_h'] = rec['init_h'] = HS([()])
        boh, h = d(M, model_eos=eos, return_h=True, **kw)
        return boh, h

    if task.get('split_only'):
        return H.result(prefixes=H.split(body, task['split_only']))
    for p, res, exc in H.explore(body, root=task.get('prefix')):
        if exc is not None:
            H.fail(K + 'exception:' + type(exc).__name__, 'raised %r' % (exc,), lambda m_: case(m_))
            continue
        boh, h = res
        hyps = list(boh)
        if init and rec['init_h'].states != [()]:
            # the caller keeps the start state for the next decoding / for rescoring: "from the given start state" must stay true of it
            H.fail(K + 'start-state-modified', 'the supplied start state was overwritten in place (now the state of prefix %r)' % (rec['init_h'].states,),
                   lambda m_: case(m_))
            continue
        got = lambda m_: [[hy.transcript, mv(m_, hy.lm_sc) if isinstance(hy.lm_sc, S) else hy.lm_sc] for hy in hyps]
        # (a) the LM score of every hypothesis is the LM's own score along the transcript
        for hy in hyps:
            pre = tuple(letters.index(ch) for ch in hy.transcript)
            exp = z3.RealVal(0)
            for i, c in enumerate(pre):
                exp = exp + lm.score(pre[:i], c).e + bonus.e
            if eos:
                exp = exp + lm.eos(pre).e
            H.claim(core.lift(hy.lm_sc) == exp, K + 'lm-score', "the LM score reported for %r is not the model's own score along that transcript" % hy.transcript,
                    lambda m_: case(m_, got=got(m_), transcript=hy.transcript))
        lw = getattr(boh, 'lm_weight', None)
        if scale0 or not isinstance(lw, S):
            if isinstance(lw, S) or lw != (0 if scale0 else None):
                H.fail(K + 'lm-weight-not-archived', 'the bag archives %r as LM scale instead of the decoder\'s scale' % (lw,), lambda m_: case(m_))
                continue
        else:
            H.claim(core.lift(lw) == scale.e, K + 'lm-weight-not-archived', 'the bag does not archive the LM scale of the decoder', lambda m_: case(m_))
        # (b) the returned state is the state of the hypothesis maximising vis + scale * lm
        if len(h.states) != 1:
            H.fail(K + 'state-shape', 'returned LM state is not a single state', lambda m_: case(m_))
            continue
        st = h.states[0]
        idx = [i for i, hy in enumerate(hyps) if tuple(letters.index(ch) for ch in hy.transcript) == st]
        if len(idx) != 1:
            H.fail(K + 'state-not-of-a-hypothesis', 'returned LM state %r belongs to no returned hypothesis' % (st,), lambda m_: case(m_, got=got(m_)))
            continue
        w = idx[0]

        def total(hy):
            # vis * exp(scale * lm): the ranking value in the probability domain
            sc = hy.vis_sc
            if scale0:
                return sc.p if isinstance(sc, LP) else None
            t_ = sc + hy.lm_sc * scale
            return t_.p
        tw = total(hyps[w])
        H.claim(z3.And(*[tw >= total(hy) for hy in hyps]), K + 'state-not-of-best',
                'the returned LM state is not the state of the hypothesis maximising visual + scale * LM score',
                lambda m_: case(m_, got=got(m_), state=list(st)))
        # (d) with scale 0 the ranking terms are the visual terms: decisions coincide with LM-free decoding
        if scale0:
            for a in rec['totals']:
                for x in a.d:
                    if isinstance(x, LP) and not x.zero and 'lm[' in x.p.sexpr():
                        H.fail(K + 'lm-leaks', 'with LM scale 0 the ranking still depends on the language model', lambda m_: case(m_))
                        break
        H.witnesses.extend([])
    # witnesses: guided runs with random matrices and random LM tables
    import random
    import fractions
    rnd = random.Random(hash((T, C, k, eos, init)) & 0xffff)
    for _ in range(3):
        vals = []
        for t in range(T):
            ws = [(pv[t][c], fractions.Fraction(rnd.randint(1, 997), 1000)) for c in range(C)]
            tot = sum(w for _, w in ws)
            vals.extend([(v, w / tot) for v, w in ws])
        sc_v = fractions.Fraction(rnd.randint(1, 30), 10)
        bo_v = fractions.Fraction(rnd.randint(0, 20), 10)
        vals += [(scale.e, sc_v), (bonus.e, bo_v)]
        g = _LMGuide(vals, rnd)
        res, exc = core.guided_run(body, g, H.ctx)
        if exc is not None or res is None:
            continue
        boh, h = res
        from symx.runner import jsonable
        expect = {'hyps': [[hy.transcript, g.value(hy.lm_sc) if isinstance(hy.lm_sc, S) else hy.lm_sc] for hy in boh],
                  'state': list(h.states[0])}
        H.witnesses.append(jsonable({'mode': task['mode'], 'T': T, 'C': C, 'k': k, 'eos': eos, 'init': init,
                                     'P': [[g.value(S(x)) for x in row] for row in pv], 'lm_scale': 0 if scale0 else sc_v, 'bonus': bo_v,
                                     'lm': dict(g.table), 'expect': expect}))
    return H.result()


def _lmvars(lm):
    out = {}
    for (pre, c), v in lm.used.items():
        out[v.decl().name()] = v
    return out


class _LMGuide(core.Guide):
    """guide that invents a value for every LM variable the first time it is needed"""

    def __init__(self, values, rnd):
        super().__init__(values)
        self.rnd = rnd
        self.table = {}

    def eval(self, e, model_completion=True):
        import fractions
        r = z3.simplify(z3.substitute(e, *self.subs))
        for _ in range(50):
            vs = [v for v in _free_vars(r) if v.decl().name().startswith('lm[') or v.decl().name().startswith('prod!')]
            if not vs:
                break
            for v in vs:
                name = v.decl().name()
                if name.startswith('lm['):
                    val = fractions.Fraction(-self.rnd.randint(1, 400), 100)
                    self.table[name] = val
                    self.subs.append((v, z3.RealVal(val)))
                else:
                    # a named product: its definition is among the lazy axioms of the path
                    for lz in core.CTX.cur.notes.get('lazy_ax', ()):
                        if lz.arg(0).eq(v):
                            self.subs.append((v, lz.arg(1)))
                            break
                    else:
                        raise core.GuideIncomplete('no definition for %s' % name)
            r = z3.simplify(z3.substitute(e, *self.subs))
        return r


def _free_vars(e):
    seen, out, todo = set(), [], [e]
    while todo:
        x = todo.pop()
        if x.get_id() in seen:
            continue
        seen.add(x.get_id())
        if z3.is_const(x) and x.decl().kind() == z3.Z3_OP_UNINTERPRETED:
            out.append(x)
        todo.extend(x.children())
    return out


def _run_bag(H, task):
    """BagOfHypotheses: best_hyp is an arg-max of total_scores and the hypothesis whose posterior is the confidence"""
    bohm = H.load('pero_ocr.decoding.bag_of_hypotheses')
    n, lmode = task['n'], task['lm']
    vis = [S(z3.Real('vis%d' % i)) for i in range(n)]
    lms = [S(z3.Real('lm%d' % i)) for i in range(n)]
    wt = S(z3.Real('lm_weight'))
    has = [lmode == 'all' or (lmode == 'mixed' and i % 2 == 0) for i in range(n)]
    K = 'C03:bag:'

    def case(m_, **kw):
        c = {'mode': 'bag', 'vis': mv(m_, vis), 'lm': [mv(m_, lms[i]) if has[i] else None for i in range(n)], 'lm_weight': mv(m_, wt)}
        c.update(kw)
        return c

    def body():
        core.assume(z3.And(wt.e >= 0, wt.e <= 3))
        bag = bohm.BagOfHypotheses(lm_weight=wt)
        for i in range(n):
            bag.add('t%d' % i, vis[i], lms[i] if has[i] else None)
        best = bag.best_hyp()
        tot = bag.total_scores()
        return best, tot

    for p, res, exc in H.explore(body):
        if exc is not None:
            H.fail(K + 'exception:' + type(exc).__name__, 'raised %r' % (exc,), lambda m_: case(m_))
            continue
        best, tot = res
        b = int(best[1:])
        use_lm = all(has)
        tl = [core.lift(x) for x in tot]
        robust = [z3.Or(tl[i] - tl[j] > z3.RealVal('1/100'), tl[j] - tl[i] > z3.RealVal('1/100')) for i in range(n) for j in range(i)]
        H.claim(z3.And(*[tl[b] >= tl[j] for j in range(n)]), K + 'best-not-argmax',
                'best_hyp() is not a hypothesis maximising visual + weight * LM score (the totals behind posteriors and confidence)',
                lambda m_: case(m_, best=best), robust=robust)
        H.witness(lambda m_: case(m_, expect=best), extra=robust)
    return H.result()


_D = 'pero_ocr/decoding/decoders.py'
_B = 'pero_ocr/decoding/bag_of_hypotheses.py'


def canaries(tier):
    q = [t for t in tasks('quick') if t['mode'] == 'lm' and t['T'] <= 2]
    return [
        {'name': 'LM predictions not permuted with the beam',
         'patches': [(_D, '    lm_preds_new = lm_preds[best_inds_l[0]]\n', '    lm_preds_new = lm_preds[:len(best_inds_l[0])].copy() if len(lm_preds) >= len(best_inds_l[0]) else lm_preds[best_inds_l[0]]\n')],
         # stale predictions are consumed one frame later: three frames are needed
         'tasks': [t for t in tasks('quick') if t['mode'] == 'lm' and t['T'] == 3 and t['k'] >= 2 and not t['eos']]},
        {'name': 'Plm not selected with the beam',
         'patches': [(_D, '                Plm = total_Plm[best_inds]\n', '                Plm = total_Plm[best_inds[0], 0]\n')], 'tasks': q},
        {'name': 'insertion bonus also added when the prefix is not extended',
         'patches': [(_D, '        return np.concatenate([new, Plm_old[:, np.newaxis]], axis=1)', '        return np.concatenate([new, Plm_old[:, np.newaxis] + self._insertion_bonus], axis=1)')], 'tasks': q},
        {'name': 'returned state chosen by visual score only',
         'patches': [(_D, 'idx_of_best = np.argmax(Pom + Plm*self._lm_scale)', 'idx_of_best = np.argmax(Pom)')], 'tasks': [t for t in q if t['k'] >= 2]},
        {'name': 'best_hyp adds the unscaled LM score (the defect repaired by the fix: commit)',
         'patches': [(_B, '        total_scores = self.total_scores()\n        return max(zip(total_scores, self._hyps), key=lambda x: x[0])[1].transcript',
                      '        return max(self._hyps, key=lambda hyp: hyp.vis_sc + (hyp.lm_sc if hyp.lm_sc is not None else 0)).transcript')],
         'tasks': [t for t in tasks('quick') if t['mode'] == 'bag']},
    ]

"""C05 replay against the real force_alignment module (run under /venv/bin/python)."""
import itertools
from fractions import Fraction

import numpy as np
from pero_ocr.core import force_alignment as fa


def _f(x):
    if x == 'inf':
        return float('inf')
    if isinstance(x, str):
        return float(Fraction(x))
    return float(x)


def _cost(case):
    return np.array([[_f(x) for x in row] for row in case['cost']], dtype=float)


def collapse(seq, blank):
    out = []
    prev = None
    for s in seq:
        if s != prev and s != blank:
            out.append(s)
        prev = s
    return out


def all_alignments(T, labels, blank):
    """every frame-level symbol sequence of length T collapsing to labels (brute force over state paths)"""
    L = len(labels)
    N = 2 * L + 1
    sym = lambda s: blank if s % 2 == 0 else labels[s // 2]
    res = []

    def rec(path):
        if len(path) == T:
            if path[-1] in (N - 1, N - 2):
                res.append(list(path))
            return
        s = path[-1]
        for d in (0, 1, 2):
            n = s + d
            if n >= N:
                continue
            if d == 2 and (s % 2 == 0 or labels[s // 2] == labels[s // 2 + 1]):
                continue
            rec(path + [n])
    for s0 in (0, 1):
        if s0 < N:
            rec([s0])
    return res, sym


def _eval(case):
    cost = _cost(case)
    labels = [int(x) for x in case['labels']]
    blank = int(case['blank'])
    T = cost.shape[0]
    paths, sym = all_alignments(T, labels, blank)
    pc = [sum(cost[t, sym(s)] for t, s in enumerate(p)) for p in paths]
    best = min(pc) if pc else float('inf')
    feasible = best < float('inf') and blank not in labels
    try:
        if case['fn'] == 'align':
            res = fa.force_align(cost, labels, blank)
        else:
            res = fa.align_text(cost, np.array(labels), blank)
    except ValueError as e:
        return (feasible, 'ValueError(%s) but a finite alignment of cost %r exists' % (str(e)[:50], best) if feasible else 'ValueError, and indeed no alignment exists'), 'ValueError'
    except Exception as e:
        return (True, 'raised %r' % (e,)), repr(e)
    if blank in labels:
        return (True, 'aligned although the blank is among the labels'), None
    if case['fn'] == 'align':
        res = [int(x) for x in res]
        if len(res) != T or collapse(res, blank) != labels:
            return (True, 'alignment %r does not collapse to %r' % (res, labels)), res
        c = sum(cost[t, s] for t, s in enumerate(res))
        if not (c <= best + 1e-9 * max(1.0, abs(best))):
            return (True, 'cost %r > optimum %r (alignment %r)' % (c, best, res)), res
        return (False, 'ok cost %r' % c), res
    pos = [int(x) for x in res]
    seqp = fa.force_align(cost, labels, blank, return_seq_positions=True)
    seqp = [int(x) for x in seqp]
    bad = None
    if any(pos[i] >= pos[i + 1] for i in range(len(pos) - 1)):
        bad = 'positions not strictly increasing: %r' % (pos,)
    for i, p in enumerate(pos):
        fr = [t for t, q in enumerate(seqp) if q == i]
        if p not in fr:
            bad = 'position %d of char %d not among its frames %r' % (p, i, fr)
            break
        conf = (-cost).max(axis=-1)
        if conf[p] < max(conf[t] for t in fr) - 1e-12:
            bad = 'position %d is not the most confident frame among %r' % (p, fr)
    return (bad is not None, bad or 'ok'), pos


def replay(case):
    (bad, detail), _ = _eval(case)
    if bad:
        return {'reproduced': True, 'detail': detail}
    # the property quantifies over all cost matrices: a monotone rescaling of the model's costs is another input with the same
    # optimal alignments; at large / tiny magnitudes float arithmetic (exp under/overflow, rounding) shows defects that exact reals hide
    for k, c in ((1.0, 800.0), (1000.0, 800.0), (1e-18, 0.0), (1e-3, 745.0)):
        c2 = dict(case)
        c2['cost'] = [[x if x == 'inf' else float(Fraction(x) if isinstance(x, str) else x) * k + c for x in row] for row in case['cost']]
        (bad2, detail2), _ = _eval(c2)
        if bad2:
            return {'reproduced': True, 'detail': 'with costs rescaled by x -> %g * x + %g: %s' % (k, c, detail2)}
    return {'reproduced': False, 'detail': detail}


def check_witness(w):
    (_, detail), got = _eval(w)
    exp = w['expect']
    if exp == 'ValueError':
        return {'match': got == 'ValueError', 'got': repr(got)}
    if 'symbols' in exp:
        return {'match': got == [int(x) for x in exp['symbols']], 'got': repr(got)}
    return {'match': got == [int(x) for x in exp['positions']], 'got': repr(got)}

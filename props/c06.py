"""C06 -- ALTO export never loses, reorders or invents text and never fails.

(A) Symbolic execution of PageLayout.to_altoxml_string / from_altoxml / get_hwvh (pero_ocr/core/layout.py) on pages
whose geometry (page size, region and line polygons, baselines, heights), alignment positions, character
confidences and the minimum line confidence are symbolic; every character of a transcription is drawn from a
class-representative alphabet by the solver (U+0020, another white-space character, a letter of the engine
charset, a letter outside it, an Arabic letter), so every arrangement of single / repeated / leading / trailing
blanks and non-ASCII white space up to the length bound is inside the space.
(B) The Arabic logical/label order conversion (ArabicHelper._reverse and its public wrappers).
"""
import importlib.util
import itertools
import math
import sys
import types
import z3

from symx import core, etstub, fmt
from symx.core import S, SB
from symx import symnp, shims
from symx.harness import Harness, mv

ID = 'C06'

META = {
    'functions': [
        'pero_ocr/core/layout.py:PageLayout.to_altoxml_string', 'pero_ocr/core/layout.py:PageLayout.from_altoxml', 'pero_ocr/core/layout.py:get_hwvh',
        'pero_ocr/core/layout.py:create_ocr_processing_element',
        'pero_ocr/core/arabic_helper.py:ArabicHelper._reverse', 'pero_ocr/core/arabic_helper.py:ArabicHelper.string_to_label_form',
        'pero_ocr/core/arabic_helper.py:ArabicHelper.label_form_to_string', 'pero_ocr/core/arabic_helper.py:ArabicHelper.is_arabic_line',
        'pero_ocr/core/arabic_helper.py:ArabicHelper.is_arabic_word',
    ],
    'bounds': {
        'quick': 'one region (and a two-region page for the print space) with 1..2 lines; transcriptions of length <= 3 over the 5-class alphabet; logits '
                 'alignable (any strictly increasing alignment, 4..5 frames), unalignable, absent, or with unknown frame window; crop grid of 0..2 '
                 'columns with symbolic coordinates; order conversion on strings of length <= 4 over a 7-class alphabet',
        'thorough': 'transcriptions of length <= 4 (<= 5 for the fallback branches); order conversion on strings of length <= 6',
    },
    'assumptions': [
        'the code distinguishes characters only by: being U+0020, being white space for str.split(), membership in the engine charset, being Arabic / an Arabic or Latin delimiter '
        '(one representative per class stands for the class)',
        'align_text returns strictly increasing frame positions or raises ValueError (C05); get_line_confidence returns values in [0,1] (C16); '
        'EngineLineCropper.get_crop_inputs returns a 16 x W x 2 grid of finite reals (its geometry is C10): all three are stubs with symbolic results; '
        'the glc=real tasks run the real get_line_confidence on uniform posteriors instead of its stub',
        'lxml: stub as in C01 (escaping of CONTENT is outside)',
    ],
    'outside': ['word box positions (only integrality is claimed)', 'get_quality', 'lxml escaping', 'real crop geometry', 'strings longer than the bound'],
    'stubs': ['lxml.etree -> symx.etstub', 'align_text, get_line_confidence, EngineLineCropper -> symbolic results', 'arabic_reshaper -> the real pure-Python package (loaded from the repository environment)'],
}

ALPHA_A = [' ', '\t', 'a', 'ž', 'ب']          # space, other white space, in charset, outside charset, Arabic letter
CHARSET = ['a', 'b', 'ب', '<blank>']
ALPHA_P = [' ', 'a', '.', 'ب']                 # tasks with a preceding Arabic line: blank, Latin letter, Latin delimiter, Arabic letter
CHARSET_P = ['a', '.', 'ب', '<blank>']
ALPHA_B = ['ب', 'ت', '،', 'a', '1', ' ', '.']   # two Arabic letters, Arabic delimiter, Latin letter, digit, blank, Latin delimiter


def tasks(tier):
    ts = []
    nmax = 3 if tier == 'quick' else 4
    for n in range(0, nmax + 1):
        for logits in ('align', 'unalignable', 'absent', 'nocoords'):
            if tier == 'quick' and n == nmax and logits == 'nocoords':
                continue
            # frames: n + 1 in the quick tier (every strictly increasing alignment of n characters into n + 1 frames), 5 in the thorough tier
            t = {'mode': 'alto', 'n': n, 'logits': logits, 'F': (n + 1 if tier == 'quick' else 5), 'grid': (1 if tier == 'quick' else 2)}
            if n >= 3:
                t['split'] = 32
            ts.append(t)
    # an Arabic line precedes the line in the same block (script handling is per line)
    for n in range(1, nmax + 1):
        ts.append({'mode': 'alto', 'n': n, 'logits': 'align', 'F': (n + 1 if tier == 'quick' else 5), 'grid': 1, 'pre': True})
    # composition with the real get_line_confidence (uniform posteriors) instead of its contract stub
    for n in range(1, nmax + 1):
        ts.append({'mode': 'alto', 'n': n, 'logits': 'align', 'F': (n + 1 if tier == 'quick' else 5), 'grid': 1, 'glc': 'real'})
    if tier != 'quick':
        for logits in ('unalignable', 'absent'):
            ts.append({'mode': 'alto', 'n': 5, 'logits': logits, 'F': 5, 'grid': 1, 'split': 64})
    ts.append({'mode': 'page', 'nr': 2})
    ts.append({'mode': 'page', 'nr': 1})
    ts.append({'mode': 'page', 'nr': 0})
    bmax = 4 if tier == 'quick' else 6
    for n in range(0, bmax + 1):
        t = {'mode': 'arabic', 'n': n}
        if n >= 4:
            t['split'] = 32 if n < 6 else 128
        ts.append(t)
    ts.sort(key=lambda t: -(t.get('n', 2)))
    return ts


def _load_arabic_reshaper():
    if 'arabic_reshaper' in sys.modules:
        return sys.modules['arabic_reshaper']
    for base in ('/venv/lib/python3.12/site-packages', ):
        path = base + '/arabic_reshaper/__init__.py'
        try:
            spec = importlib.util.spec_from_file_location('arabic_reshaper', path, submodule_search_locations=[base + '/arabic_reshaper'])
            mod = importlib.util.module_from_spec(spec)
            sys.modules['arabic_reshaper'] = mod
            spec.loader.exec_module(mod)
            return mod
        except Exception:
            sys.modules.pop('arabic_reshaper', None)
    return None


def _harness(patches):
    sm = dict(etstub.make_module())
    ar = _load_arabic_reshaper()
    if ar is not None:
        sm['arabic_reshaper'] = ar
    H = Harness(patches, shim_map=sm, extra_builtins={'print': lambda *a, **k: None})
    fmt.install()
    L = H.load('pero_ocr.core.layout')
    L.BytesIO = etstub.BytesIO
    return H, L


def run_task(task, patches=None):
    H, L = _harness(patches)
    if task['mode'] == 'arabic':
        return _run_arabic(H, task)
    if task['mode'] == 'page':
        return _run_page(H, L, task)
    return _run_alto(H, L, task)


def _round_shim():
    def rnd(x, nd=None):
        if isinstance(x, S) and nd:
            sc = 10 ** nd
            return S(z3.ToReal(core.sround(S(core._real(x.e) * sc)).e) / sc)
        return shims._round(x, nd)
    return rnd


class _Logits:
    """dense logits stand-in: only the shape is used by the export (values go through the stubs)"""

    def __init__(self, F, C):
        self.shape = (F, C)

    def toarray(self):
        return symnp.zeros(self.shape)


def _strings(root, tag_suffix):
    return [el for el in root.iter() if el.tag.endswith(tag_suffix)]


def _is_int_text(s):
    if not isinstance(s, str):
        return False
    toks = fmt.tokens(s)
    if len(toks) != 1:
        return False
    if isinstance(toks[0], int):
        return fmt._REG[toks[0]][1] == '' and (fmt._REG[toks[0]][0].is_int if isinstance(fmt._REG[toks[0]][0], S) else isinstance(fmt._REG[toks[0]][0], int))
    t = toks[0]
    return t.lstrip('-').isdigit()


def _run_alto(H, L, task):
    n, lmode = task['n'], task['logits']
    K = 'C06:alto:'
    F = task.get('F', 5)
    GRID = task.get('grid', 2)
    cls = [z3.Int('cls_%d' % i) for i in range(n)]
    pos = [z3.Int('pos_%d' % i) for i in range(n)]
    conf = [z3.Real('conf_%d' % i) for i in range(n)]
    minconf = z3.Real('min_line_confidence')
    geo = {k: z3.Int(k) for k in ('page_h', 'page_w', 'rx0', 'ry0', 'rx1', 'ry1', 'lx0', 'ly0', 'lx1', 'ly1', 'by')}
    hs = [z3.Real('h_up'), z3.Real('h_down')]
    grid_w = z3.Int('crop_columns')
    state = {}
    L.__dict__['round'] = _round_shim()
    npre = 1 if task.get('pre') else 0
    real_glc = L.get_line_confidence
    ALPHA, CHARSET = (ALPHA_P, CHARSET_P) if npre else (ALPHA_A, globals()['CHARSET'])

    def case(m_, **kw):
        c = {'mode': 'alto', 'n': n, 'pre': npre, 'glc': task.get('glc'), 'logits': lmode, 'text': state.get('text'), 'positions': [mv(m_, S(p)) for p in pos], 'conf': [mv(m_, S(c_)) for c_ in conf],
             'min_conf': mv(m_, S(minconf)), 'geo': {k: mv(m_, S(v)) for k, v in geo.items()}, 'heights': [mv(m_, S(h)) for h in hs],
             'crop_columns': mv(m_, S(grid_w)), 'align_fails': state.get('align_fails'), 'F': F}
        c.update(kw)
        return c

    def body():
        fmt.reset()
        state.clear()
        text = ''
        for v in cls:
            core.assume(z3.And(v >= 0, v < len(ALPHA)))
            text += ALPHA[core.concretize(v)]
        state['text'] = text
        g = geo
        core.assume(z3.And(g['page_h'] > 0, g['page_w'] > 0, g['rx0'] <= g['rx1'], g['ry0'] <= g['ry1'], g['lx0'] <= g['lx1'], g['ly0'] <= g['ly1'],
                           hs[0] > 0, hs[1] > 0, minconf >= 0, minconf <= 1, grid_w >= 0, grid_w <= GRID))
        for c_ in conf:
            core.assume(z3.And(c_ >= 0, c_ <= 1))
        pl = L.PageLayout(id='page 1.jpg', page_size=(S(g['page_h']), S(g['page_w'])))
        reg = L.RegionLayout('r1', symnp.A([S(g['rx0']), S(g['ry0']), S(g['rx1']), S(g['ry0']), S(g['rx1']), S(g['ry1']), S(g['rx0']), S(g['ry1'])], (4, 2)))
        line = L.TextLine(id='l1', baseline=symnp.A([S(g['lx0']), S(g['by']), S(g['lx1']), S(g['by'])], (2, 2)),
                          polygon=symnp.A([S(g['lx0']), S(g['ly0']), S(g['lx1']), S(g['ly0']), S(g['lx1']), S(g['ly1']), S(g['lx0']), S(g['ly1'])], (4, 2)),
                          heights=[S(hs[0]), S(hs[1])], transcription=text)
        if lmode != 'absent':
            line.logits = _Logits(F, len(CHARSET))
            line.characters = list(CHARSET)
            line.logit_coords = [None, None] if lmode == 'nocoords' else [0, F]
        else:
            line.characters = list(CHARSET)        # a line recognised in no-logits mode: characters set, logits absent
        line.get_dense_logits = lambda: symnp.zeros((F, len(CHARSET)))
        line.get_full_logprobs = lambda: symnp.zeros((F, len(CHARSET)))
        if npre:
            core.assume(minconf == 0)
            reg.lines.append(L.TextLine(id='l0', baseline=line.baseline, polygon=line.polygon, heights=[S(hs[0]), S(hs[1])], transcription='ب'))
        reg.lines.append(line)
        pl.regions.append(reg)

        def align_text(neg_logprobs, labels, blank):
            state['labels'] = [int(x) for x in labels.d]
            if lmode == 'unalignable' or len(labels) > F or len(labels) == 0:
                state['align_fails'] = True
                raise ValueError('It was not possible to align the states with the logits (stub)')
            ps = []
            for i in range(len(labels)):
                core.assume(z3.And(pos[i] >= 0, pos[i] < F))
                if i:
                    core.assume(pos[i - 1] < pos[i])
                ps.append(core.concretize(pos[i]))
            state['align_fails'] = False
            return symnp.A(ps, (len(ps),), symnp.int32)
        L.align_text = align_text
        L.get_line_confidence = lambda line_, labels, aligned, logprobs: symnp.A([S(conf[i]) for i in range(len(labels))], (len(labels),))
        if task.get('glc') == 'real':
            L.get_line_confidence = real_glc
            uni = math.log(1.0 / len(CHARSET))
            line.get_full_logprobs = lambda: symnp.A([uni] * (F * len(CHARSET)), (F, len(CHARSET)))

        class Cropper:
            def __init__(self, **kw):
                pass

            def get_crop_inputs(self, baseline, heights, target_height):
                w = core.concretize(grid_w)
                return symnp.A([S(z3.Real('grid_%d_%d_%d' % (r, c, k))) for r in range(16) for c in range(w) for k in range(2)], (16, w, 2))
        L.EngineLineCropper = Cropper
        s = pl.to_altoxml_string(min_line_confidence=S(minconf))
        L2 = L.PageLayout()
        L2.from_altoxml_string(s)
        return pl, s, L2

    if task.get('split_only'):
        return H.result(prefixes=H.split(body, task['split_only']))
    for p, res, exc in H.explore(body, root=task.get('prefix')):
        text = state.get('text', '')
        if exc is not None:
            H.fail(K + 'export-fails:' + type(exc).__name__, 'ALTO export raised %s: %s' % (type(exc).__name__, str(exc)[:80]),
                   lambda m_: case(m_, error=repr(exc)[:200]))
            continue
        pl, s, L2 = res
        root = s.tree
        tls = _strings(root, 'TextLine')
        if npre:
            if not tls or [el.attrib.get('CONTENT') for el in _strings(tls[0], 'String')] != ['ب']:
                H.fail(K + 'preceding-line', 'the preceding Arabic line (no logits, minimum confidence 0) is not exported with its word',
                       lambda m_: case(m_))
                continue
            tls = tls[1:]
        words = text.split()
        nonblank = bool(text) and text.strip() != ''
        line = pl.regions[0].lines[-1]
        lc = line.transcription_confidence
        got = lambda m_: {'strings': [[el.attrib.get('CONTENT') for el in _strings(tl, 'String')] for tl in tls]}
        if not nonblank:
            if tls:
                H.fail(K + 'blank-line-exported', 'a line with a blank transcription was exported', lambda m_: case(m_, got=got(m_)))
            H.witness(lambda m_: case(m_, expect=[]))
            continue
        # (2) exported exactly when its confidence is not below the requested minimum
        if lc is None:
            dropped_ok = z3.BoolVal(False)
        else:
            dropped_ok = core.lift(lc) < minconf
        if not tls:
            H.claim(dropped_ok, K + 'line-missing', 'a line with a non-blank transcription and sufficient confidence is missing from the ALTO file',
                    lambda m_: case(m_, line_confidence=(mv(m_, lc) if lc is not None else None)))
            H.witness(lambda m_: case(m_, expect=None))
            continue
        if len(tls) != 1:
            H.fail(K + 'line-duplicated', 'a line appears %d times' % len(tls), lambda m_: case(m_, got=got(m_)))
            continue
        H.claim(z3.Not(dropped_ok), K + 'low-confidence-line-kept', 'a line below the requested confidence was exported', lambda m_: case(m_))
        # (3) the word contents are the white-space separated words of the transcription, in order
        contents = [el.attrib.get('CONTENT') for el in _strings(tls[0], 'String')]
        helper = L.ArabicHelper()
        arabic = helper.is_arabic_line(text)
        if arabic and not state.get('align_fails', True) and lmode in ('align', 'nocoords'):
            exp_words = [helper.label_form_to_string(w) for w in words]
        else:
            exp_words = words
        if contents != exp_words:
            H.fail(K + 'words-differ', 'the String contents %r are not the words %r of the transcription %r' % (contents, exp_words, text),
                   lambda m_: case(m_, got=got(m_)))
            continue
        # (4) geometry attributes are integers; (6) word confidences in [0, 1]
        okg = True
        for el in root.iter():
            for k in ('HEIGHT', 'WIDTH', 'VPOS', 'HPOS', 'BASELINE'):
                if k in el.attrib and not _is_int_text(el.attrib[k]):
                    okg = False
                    H.fail(K + 'non-integer-geometry', '%s of %s is not an integer: %r' % (k, el.tag.split('}')[-1], el.attrib[k]), lambda m_: case(m_))
                    break
            if not okg:
                break
        wcs = []
        for el in _strings(tls[0], 'String'):
            if 'WC' in el.attrib:
                try:
                    wcs.append(core.lift(shims._float(el.attrib['WC'])))
                except Exception:
                    H.fail(K + 'wc-format', 'WC is not a number: %r' % el.attrib['WC'], lambda m_: case(m_))
        if wcs:
            H.claim(z3.And(*[z3.And(w >= 0, w <= 1) for w in wcs]), K + 'wc-range', 'a word confidence lies outside [0, 1]', lambda m_: case(m_))
        # (7) re-importing the file returns the same words
        l2 = [ln for r in L2.regions for ln in r.lines][npre:]
        if len(l2) != 1 or l2[0].transcription != ' '.join(exp_words):
            H.fail(K + 'reimport', 're-importing the ALTO file gives %r instead of %r' % ([ln.transcription for ln in l2], ' '.join(exp_words)), lambda m_: case(m_))
        H.witness(lambda m_: case(m_, expect=contents))
    return H.result()


def _run_page(H, L, task):
    """print space = bounding box of the text blocks; the four margins cover the rest of the page"""
    nr = task['nr']
    K = 'C06:page:'
    ph, pw = z3.Int('page_h'), z3.Int('page_w')
    bx = [[z3.Int('r%d_%s' % (r, k)) for k in ('x0', 'y0', 'x1', 'y1')] for r in range(nr)]

    def case(m_, **kw):
        c = {'mode': 'page', 'nr': nr, 'page': [mv(m_, S(ph)), mv(m_, S(pw))], 'blocks': [[mv(m_, S(v)) for v in b] for b in bx]}
        c.update(kw)
        return c

    def body():
        fmt.reset()
        core.assume(z3.And(ph > 0, pw > 0))
        pl = L.PageLayout(id='p', page_size=(S(ph), S(pw)))
        for r in range(nr):
            x0, y0, x1, y1 = bx[r]
            core.assume(z3.And(x0 >= 0, x0 <= x1, x1 <= pw, y0 >= 0, y0 <= y1, y1 <= ph))
            pl.regions.append(L.RegionLayout('r%d' % r, symnp.A([S(x0), S(y0), S(x1), S(y0), S(x1), S(y1), S(x0), S(y1)], (4, 2))))
        return pl.to_altoxml_string()

    for p, res, exc in H.explore(body):
        if exc is not None:
            H.fail(K + 'export-fails:' + type(exc).__name__, 'ALTO export raised %r' % (exc,), lambda m_: case(m_))
            continue
        root = res.tree

        def attr(tag, k):
            el = [e for e in root.iter() if e.tag.endswith(tag)][0]
            return core.lift(shims._int(el.attrib[k]))
        psv, psh, psH, psW = attr('PrintSpace', 'VPOS'), attr('PrintSpace', 'HPOS'), attr('PrintSpace', 'HEIGHT'), attr('PrintSpace', 'WIDTH')
        if nr == 0:
            H.witness(lambda m_: case(m_, expect=None))
            continue
        def zmin(l):
            m = l[0]
            for x in l[1:]:
                m = z3.If(x < m, x, m)
            return m

        def zmax(l):
            m = l[0]
            for x in l[1:]:
                m = z3.If(x > m, x, m)
            return m
        X0, Y0, X1, Y1 = zmin([b[0] for b in bx]), zmin([b[1] for b in bx]), zmax([b[2] for b in bx]), zmax([b[3] for b in bx])
        H.claim(z3.And(psh == X0, psv == Y0, psW == X1 - X0, psH == Y1 - Y0), K + 'print-space',
                'the print space is not the bounding box of the text blocks', lambda m_: case(m_, got=[mv(m_, S(v)) for v in (psh, psv, psW, psH)]))
        H.claim(z3.And(attr('TopMargin', 'HEIGHT') == psv, attr('LeftMargin', 'WIDTH') == psh,
                       attr('RightMargin', 'WIDTH') == pw - (psh + psW), attr('BottomMargin', 'HEIGHT') == ph - (psv + psH),
                       attr('RightMargin', 'HPOS') == psh + psW, attr('BottomMargin', 'VPOS') == psv + psH),
                K + 'margins', 'the four margins do not cover the page outside the print space', lambda m_: case(m_))
        H.witness(lambda m_: case(m_, expect=[mv(m_, S(v)) for v in (psh, psv, psW, psH)]))
    return H.result()


def _run_arabic(H, task):
    n = task['n']
    K = 'C06:arabic:'
    ah = H.load('pero_ocr.core.arabic_helper')
    cls = [z3.Int('cls_%d' % i) for i in range(n)]
    state = {}

    def case(m_, **kw):
        c = {'mode': 'arabic', 'text': state.get('text')}
        c.update(kw)
        return c

    def body():
        text = ''
        for v in cls:
            core.assume(z3.And(v >= 0, v < len(ALPHA_B)))
            text += ALPHA_B[core.concretize(v)]
        state['text'] = text
        helper = ah.ArabicHelper()
        r = helper._reverse(text)
        rr = helper._reverse(r)
        a = helper.string_to_label_form(text)
        b = helper.label_form_to_string(a)
        return r, rr, a, b

    if task.get('split_only'):
        return H.result(prefixes=H.split(body, task['split_only']))
    for p, res, exc in H.explore(body, root=task.get('prefix')):
        text = state.get('text', '')
        if exc is not None:
            H.fail(K + 'raises:' + type(exc).__name__, 'order conversion raised %r' % (exc,), lambda m_: case(m_))
            continue
        r, rr, a, b = res
        if sorted(r) != sorted(text):
            H.fail(K + 'not-a-permutation', 'order conversion of %r gives %r: characters added, dropped or changed' % (text, r), lambda m_: case(m_, got=r))
        elif rr != text:
            H.fail(K + 'not-an-involution', 'applying the order conversion twice to %r gives %r' % (text, rr), lambda m_: case(m_, got=[r, rr]))
        elif b != text:
            H.fail(K + 'label-roundtrip', 'label_form_to_string(string_to_label_form(%r)) gives %r' % (text, b), lambda m_: case(m_, got=[a, b]))
        H.witness(lambda m_: case(m_, expect=r))
    return H.result()


_F = 'pero_ocr/core/layout.py'
_A = 'pero_ocr/core/arabic_helper.py'


def canaries(tier):
    q = [t for t in tasks('quick') if t['mode'] == 'alto' and t['n'] in (2, 3)]
    qp = [t for t in tasks('quick') if t['mode'] == 'page' and t['nr'] >= 1]
    return [
        {'name': 'last word test against the number of boxes instead of the number of words',
         'patches': [(_F, 'if w != (len(line.transcription.split())-1):', 'if w != len(words):')], 'tasks': q, 'expect': False},
        {'name': 'fallback branch removed for unalignable lines (export fails)',
         'patches': [(_F, '                except (ValueError, IndexError, TypeError, AttributeError) as e:', '                except (IndexError, TypeError, AttributeError) as e:')], 'tasks': q},
        {'name': 'print space starts from the page size (the defect repaired by the fix: commit)',
         'patches': [(_F, '        print_space_vpos = None\n', '        print_space_vpos = self.page_size[0]\n')], 'tasks': qp, 'error_counts': True},
        {'name': 'lines at exactly the minimum confidence dropped',
         'patches': [(_F, 'if line.transcription_confidence < min_line_confidence:', 'if line.transcription_confidence <= min_line_confidence:')], 'tasks': q},
    ]

"""C05 -- forced alignment is a valid, minimum-cost CTC alignment.

Symbolic execution of pero_ocr/core/force_alignment.py on a T x C cost matrix
of extended reals (every entry a symbolic real or +inf, the inf pattern
symbolic as well), symbolic labels and a symbolic blank index.  Optimality is
decided against a universally quantified competitor: T fresh integer state
variables constrained to be a valid CTC alignment of the labels.
"""
import itertools
import z3

from symx import core
from symx.core import S, XR
from symx import symnp
from symx.harness import Harness, mv

ID = 'C05'

META = {
    'functions': [
        'pero_ocr/core/force_alignment.py:force_align',
        'pero_ocr/core/force_alignment.py:complete_state_seq',
        'pero_ocr/core/force_alignment.py:hmm_trans_from_string',
        'pero_ocr/core/force_alignment.py:expand_logits',
        'pero_ocr/core/force_alignment.py:viterbi_align',
        'pero_ocr/core/force_alignment.py:compute_update',
        'pero_ocr/core/force_alignment.py:initial_cost',
        'pero_ocr/core/force_alignment.py:final_cost',
        'pero_ocr/core/force_alignment.py:backtrack',
        'pero_ocr/core/force_alignment.py:align_text',
    ],
    'bounds': {
        'quick': 'T x L in {1..4} x {1..2} (all pairs, incl. T < L) and T = L = 3, C = 3 symbols, symbolic blank index in [0,C), '
                 'labels symbolic in [0,C), each cost a symbolic real or +inf (inf pattern symbolic)',
        'thorough': 'T x L in {1..5} x {1..3} (T=5,L=3 only for align, not align_text), C = 3; plus C = 4 for T <= 3, L <= 2',
    },
    'assumptions': [
        'costs are exact reals or +inf (no nan, no -inf); numba jit = identity on the same source',
        'numpy -> symnp facade (validated by witness replay)',
    ],
    'outside': ['T, L, C beyond the bound; nan costs; numba compilation; round-off'],
    'stubs': ['pero_ocr.utils.jit -> identity decorator', 'numpy -> symx.symnp'],
}


def tasks(tier):
    ts = []
    if tier == 'quick':
        for T, L in itertools.product(range(1, 5), range(1, 3)):
            ts.append({'fn': 'align', 'T': T, 'L': L, 'C': 3})
        for T, L in itertools.product(range(1, 4), range(1, 3)):
            ts.append({'fn': 'text', 'T': T, 'L': L, 'C': 3})
        # three labels on exactly three frames: the shortest input with a non-adjacent recurring label (a, b, a) and no spare frame
        ts.append({'fn': 'align', 'T': 3, 'L': 3, 'C': 3})
    else:
        for T, L in itertools.product(range(1, 6), range(1, 4)):
            if T == 5 and L == 3:
                continue
            ts.append({'fn': 'align', 'T': T, 'L': L, 'C': 3})
        for T, L in itertools.product(range(1, 5), range(1, 3)):
            ts.append({'fn': 'text', 'T': T, 'L': L, 'C': 3})
        ts.append({'fn': 'text', 'T': 4, 'L': 3, 'C': 3})
        for T, L in itertools.product(range(1, 4), range(1, 3)):
            ts.append({'fn': 'align', 'T': T, 'L': L, 'C': 4})
    for t in ts:
        if t['T'] >= 4 and t['L'] >= 2:
            t['split'] = 48
    ts.sort(key=lambda t: -(t['T'] ** 2) * t['L'] * t['C'])
    return ts


def xsum(xs):
    t = XR(False, z3.RealVal(0))
    for x in xs:
        t = t + x
    return t


def run_task(task, patches=None):
    H = Harness(patches, timeout_ms=120000)
    mod = H.load('pero_ocr.core.force_alignment')
    T, L, C = task['T'], task['L'], task['C']
    fn = task['fn']
    infs = [[z3.Bool('i_%d_%d' % (t, c)) for c in range(C)] for t in range(T)]
    vals = [[z3.Real('v_%d_%d' % (t, c)) for c in range(C)] for t in range(T)]
    labels = [S(z3.Int('lab%d' % i)) for i in range(L)]
    blank = S(z3.Int('blank'))
    N = 2 * L + 1
    rec = {}
    real_va = mod.viterbi_align

    def va(neg_logits, A):
        r = real_va(neg_logits, A)
        rec['states'] = [core.concretize(x) if isinstance(x, S) else x for x in r]
        return r
    mod.viterbi_align = va

    def sym_of_state(s):
        return blank.e if s % 2 == 0 else labels[s // 2].e

    def sel(t, sym_e):
        """cost[t][sym_e] as XR via ITE over the symbol value"""
        inf = infs[t][C - 1]
        v = vals[t][C - 1]
        for c in range(C - 2, -1, -1):
            inf = z3.If(sym_e == c, infs[t][c], inf)
            v = z3.If(sym_e == c, vals[t][c], v)
        return XR(inf, v)

    def case(m_, **kw):
        c = {'fn': fn, 'T': T, 'L': L, 'C': C,
             'cost': [[('inf' if core.model_value(m_, infs[t][c]) else core.model_value(m_, vals[t][c])) for c in range(C)]
                      for t in range(T)],
             'labels': mv(m_, labels), 'blank': mv(m_, blank)}
        c.update(kw)
        return c

    def body():
        rec.clear()
        for l in labels:
            core.assume(z3.And(l.e >= 0, l.e < C))
        core.assume(z3.And(blank.e >= 0, blank.e < C))
        cost = symnp.A([XR(infs[t][c], vals[t][c]) for t in range(T) for c in range(C)], (T, C))
        if fn == 'align':
            return mod.force_align(cost, list(labels), blank)
        return mod.align_text(cost, symnp.asarray(list(labels)), blank)

    # universally quantified competitor
    q = [z3.Int('q%d' % t) for t in range(T)]
    valid = [z3.Or(q[0] == 0, q[0] == 1), z3.Or(q[T - 1] == N - 1, q[T - 1] == N - 2)]
    for t in range(T):
        valid.append(z3.And(q[t] >= 0, q[t] < N))
    for t in range(T - 1):
        d = q[t + 1] - q[t]
        skip_ok = z3.Or(*[z3.And(q[t] == s, labels[s // 2].e != labels[s // 2 + 1].e)
                          for s in range(1, N - 2, 2)]) if N > 3 else z3.BoolVal(False)
        valid.append(z3.Or(d == 0, d == 1, z3.And(d == 2, skip_ok)))
    valid = z3.And(*valid)

    def qsym(t):
        e = blank.e
        for s in range(1, N, 2):
            e = z3.If(q[t] == s, labels[s // 2].e, e)
        return e
    qcost = xsum([sel(t, qsym(t)) for t in range(T)])

    if task.get('split_only'):
        return H.result(prefixes=H.split(body, task['split_only']))
    K = 'C05:%s:' % fn
    for p, res, exc in H.explore(body, root=task.get('prefix')):
        blank_in = z3.Or(*[l.e == blank.e for l in labels])
        if exc is not None:
            if not isinstance(exc, ValueError):
                H.fail(K + 'exception:' + type(exc).__name__, 'raised %r' % (exc,), lambda m_: case(m_))
                continue
            # failure must mean: no alignment of finite cost exists (or blank among the labels)
            H.claim(z3.Or(blank_in, z3.Not(z3.And(valid, z3.Not(core.zb(qcost.inf))))), K + 'spurious-failure',
                    'ValueError although a finite-cost alignment exists',
                    lambda m_: case(m_, competitor=[core.model_value(m_, x) for x in q], error=str(exc)[:80]))
            H.witness(lambda m_: case(m_, expect='ValueError'))
            continue
        states = rec.get('states')
        if states is None or len(states) != T or not all(isinstance(s, int) for s in states):
            H.fail(K + 'shape', 'alignment is not one state per frame: %r' % (states,), lambda m_: case(m_))
            continue
        # success must not happen when the blank is among the labels
        H.claim(z3.Not(blank_in), K + 'blank-in-labels', 'aligned although the blank occurs among the labels', lambda m_: case(m_))
        # (a) validity of the state path
        okv = states[0] in (0, 1) and states[-1] in (N - 1, N - 2) and all(0 <= s < N for s in states)
        skips = []
        for t in range(T - 1):
            d = states[t + 1] - states[t]
            if d not in (0, 1, 2):
                okv = False
            if d == 2:
                if states[t] % 2 == 0:
                    okv = False
                else:
                    skips.append(labels[states[t] // 2].e != labels[states[t] // 2 + 1].e)
        got = lambda m_: {'states': list(states)}
        if not okv:
            H.fail(K + 'invalid-path', 'returned state path is not a CTC alignment of the labels', lambda m_: case(m_, got=got(m_)))
            continue
        if skips:
            if not H.claim(z3.And(*skips), K + 'skip-between-equal', 'alignment skips the blank between equal labels',
                           lambda m_: case(m_, got=got(m_))):
                continue
        rcost = xsum([sel(t, sym_of_state(states[t])) for t in range(T)])
        H.claim(z3.Not(core.zb(rcost.inf)), K + 'infinite', 'returned alignment has infinite cost', lambda m_: case(m_, got=got(m_)))
        # (b) optimality against every valid competitor
        worse = core.zb(qcost < rcost)
        H.claim(z3.Not(z3.And(valid, worse)), K + 'not-optimal', 'a cheaper valid alignment exists',
                lambda m_: case(m_, got=got(m_), competitor=[core.model_value(m_, x) for x in q]))
        if fn == 'align':
            # returned symbols are those of the states
            same = all(r is (blank if s % 2 == 0 else labels[s // 2]) or core.prove(core.lift(r) == sym_of_state(s)) is None
                       for r, s in zip(res, states))
            if not same:
                H.fail(K + 'symbols', 'returned symbols are not those of the aligned states', lambda m_: case(m_, got=got(m_)))
            H.witness(lambda m_: case(m_, expect={'symbols': [mv(m_, r) for r in res]}))
        else:
            pos = [core.concretize(x) if isinstance(x, S) else x for x in res.d]
            frames = lambda i: [t for t in range(T) if states[t] == 2 * i + 1]
            okp = len(pos) == L and all(isinstance(x, int) for x in pos)
            if okp:
                okp = all(pos[i] in frames(i) for i in range(L)) and all(pos[i] < pos[i + 1] for i in range(L - 1))
            if not okp:
                H.fail(K + 'positions', 'character positions are not strictly increasing frames aligned to their characters',
                       lambda m_: case(m_, got={'states': list(states), 'positions': [mv(m_, x) for x in pos]}))
            else:
                # the chosen frame is where the network is most confident: max_c(-cost) maximal among the aligned frames
                conj = []
                for i in range(L):
                    best = _rowmin(infs, vals, pos[i], C)
                    for t in frames(i):
                        other = _rowmin(infs, vals, t, C)
                        conj.append(core.zb(best <= other))
                H.claim(z3.And(*conj) if conj else True, K + 'not-most-confident',
                        'chosen frame is not the most confident among the frames aligned to the character',
                        lambda m_: case(m_, got={'states': list(states), 'positions': pos}))
            H.witness(lambda m_: case(m_, expect={'positions': [mv(m_, x) for x in pos]}))
    return H.result()


def _rowmin(infs, vals, t, C):
    m = XR(infs[t][0], vals[t][0])
    for c in range(1, C):
        x = XR(infs[t][c], vals[t][c])
        m = core.ite(x < m, x, m)
    return m


_F = 'pero_ocr/core/force_alignment.py'


def canaries(tier):
    q = [t for t in tasks('quick') if t['T'] <= 4]
    al = [t for t in q if t['fn'] == 'align' and t['T'] <= 3]
    return [
        {'name': 'skip allowed between equal labels',
         'patches': [(_F, "            if elements[ind_elem] != elements[ind_elem+1]:\n                desired[i, i+2] = 0.0", "            desired[i, i+2] = 0.0")],
         'tasks': al},
        {'name': 'final_cost admits only the last state',
         'patches': [(_F, "    cost[-1] = 0.0\n    cost[-2] = 0.0\n    return cost", "    cost[-1] = 0.0\n    return cost")],
         'tasks': al},
        {'name': 'initial_cost admits only state 0',
         'patches': [(_F, "    cost[0] = 0.0\n    cost[1] = 0.0\n    return cost", "    cost[0] = 0.0\n    return cost")],
         'tasks': al},
        {'name': 'compute_update < -> <= (still optimal: negative control)',
         'patches': [(_F, "if updated_cost < new_cost[i]:", "if updated_cost <= new_cost[i]:")],
         'tasks': al, 'expect': False},
        {'name': 'align_text argmax -> argmin',
         'patches': [(_F, "best_pos = np.argmax(max_probs[seq_positions])", "best_pos = np.argmin(max_probs[seq_positions])")],
         'tasks': [t for t in q if t['fn'] == 'text']},
        {'name': 'backtrack off by one',
         'patches': [(_F, "for i in reversed(range(1, len(backpointers))):", "for i in reversed(range(0, len(backpointers) - 1)):")],
         'tasks': al, 'error_counts': True},
    ]

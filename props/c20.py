"""C20 -- cached transformer decoding equals recomputation, per line and per batch (the cache bookkeeping).

Symbolic execution of CustomMultiheadAttention.infer / cached_forward, DecoderLayer.infer and Decoder.infer
(pero_ocr/ocr_engine/transformer.py) and of TransformerEngineLineOCR.postprocess_decoded over a ROW-LEVEL model of torch
(symx/rowtorch.py): a tensor is a grid of rows, every operation along the embedding dimension (linear maps, head split,
scaling, dot products, soft-max, weighted sums, layer norm, ReLU) is an uninterpreted function of the rows it reads,
every operation that only moves data (slicing, assignment into caches, view, transpose, chunk, bmm's indexing) runs
concretely, and torch.empty() returns fresh 'stale' constants.  Equality of the cached, the recomputed and the masked
full forward results is then equality of terms, decided by z3 in the theory of uninterpreted functions.
"""
import itertools
import types
import z3

from symx import core, rowtorch as rt
from symx.core import S, SB
from symx.harness import Harness, mv

ID = 'C20'

META = {
    'functions': [
        'pero_ocr/ocr_engine/transformer.py:CustomMultiheadAttention.infer', 'pero_ocr/ocr_engine/transformer.py:CustomMultiheadAttention.cached_forward',
        'pero_ocr/ocr_engine/transformer.py:DecoderLayer.infer', 'pero_ocr/ocr_engine/transformer.py:Decoder.infer',
        'pero_ocr/ocr_engine/transformer_ocr_engine.py:TransformerEngineLineOCR.postprocess_decoded',
        'pero_ocr/ocr_engine/transformer_ocr_engine.py:TransformerEngineLineOCR.transcribe_batch',
    ],
    'bounds': {
        'quick': 'decoders of 1..2 layers, 1..2 heads, batch sizes 1..2, 3 decoding steps, encoder output of 2 positions, max_seq_len = steps + 3; histories: fresh model, '
                 'a previous batch of the same size, a previous batch of a different size, a previous batch that ran longer; postprocess_decoded on '
                 'symbolic label sequences of length <= 3; transcribe_batch: batches of 2 lines, length cap 2 (up to 3 decoding steps), 4 symbol classes',
        'thorough': '3 layers, 3 heads, batch size 3, 4 steps, encoder output of 3 positions; transcribe_batch: (lines, length cap) in {(2, 2), (2, 3), (3, 2)}',
    },
    'assumptions': [
        'row-level semantics of torch: linear layers, layer norm, ReLU, soft-max, dot products and weighted sums act on whole rows and are deterministic functions of their arguments (uninterpreted); '
        'nn.MultiheadAttention.forward and the masked post-norm decoder layer are reference implementations written from the PyTorch documentation with the same functions',
        'floating-point round-off (cached and recomputed results differ in the last bits on real hardware) is outside',
        'the encoder and the positional encoding are outside (inputs to the decoder are arbitrary rows)',
        'transcribe_batch runs over an abstract network: the arg-max symbol of a line at a step is an uninterpreted function of the line and of the symbols fed to it so far '
        '(that the real decoder has this form is what the decode tasks establish); claim: a line gets inside a batch the transcription it gets alone',
    ],
    'outside': ['bit-identical floats', 'beam search (cache_index_select), reallocate_caches', 'the encoder; the logits returned by transcribe_batch'],
    'stubs': ['torch, torch.nn, torch.nn.functional -> symx.rowtorch', 'torch.empty -> fresh stale constants', 'transcribe_batch: integer tensors as nested lists of symbolic integers, network -> uninterpreted functions'],
}

E = 2
FF = 4
MAXLEN = 5


def tasks(tier):
    ts = []
    if tier == 'quick':
        cfgs = itertools.product((1, 2), (1, 2), (1, 2))
        steps, S_ = 3, 2
    else:
        cfgs = itertools.product((1, 2, 3), (1, 2, 3), (1, 2, 3))
        steps, S_ = 4, 3
    for layers, heads, N in cfgs:
        for hist in ('fresh', 'same', 'different', 'longer'):
            ts.append({'mode': 'decode', 'layers': layers, 'heads': heads, 'N': N, 'steps': steps, 'S': S_, 'hist': hist})
    ts.append({'mode': 'postprocess', 'n': 3})
    # the greedy loop of transcribe_batch: a line decoded inside a batch gets the transcription it gets when decoded alone
    for N, cap in (((2, 2),) if tier == 'quick' else ((2, 2), (2, 3), (3, 2))):
        ts.append({'mode': 'greedy', 'N': N, 'cap': cap})
    return ts


def _terms_with(e, prefixes):
    seen, todo, hits = set(), [e], set()
    while todo:
        x = todo.pop()
        if x.get_id() in seen:
            continue
        seen.add(x.get_id())
        if z3.is_const(x) and x.decl().kind() == z3.Z3_OP_UNINTERPRETED:
            n = x.decl().name()
            if any(n.startswith(p) for p in prefixes):
                hits.add(n)
        todo.extend(x.children())
    return hits


def run_task(task, patches=None):
    if task['mode'] == 'postprocess':
        return _run_post(task, patches)
    if task['mode'] == 'greedy':
        return _run_greedy(task, patches)
    mods = rt.make_torch()
    H = Harness(patches, shim_map=mods, extra_builtins={'print': lambda *a, **k: None})
    heads = task['heads']
    emb = E * heads if heads == 3 else (E if heads <= 2 else E)
    emb = 6 if heads == 3 else 2 if heads <= 2 else 2
    rt.set_embed(emb)
    tr = H.load('pero_ocr.ocr_engine.transformer')
    layers, N, steps, S_ = task['layers'], task['N'], task['steps'], task['S']
    hist = task['hist']
    K = 'C20:decode:'

    def build():
        rt.reset_params()
        return tr.Decoder(layers, emb, heads, FF, 0.0, max_seq_len=steps + 3)

    def rows(prefix, L, n):
        return rt.RT([(rt.const('%s_%d_%d' % (prefix, l, b)),) for l in range(L) for b in range(n)], (L, n), 1, emb)

    def case(m_, **kw):
        c = {'mode': 'decode', 'layers': layers, 'heads': heads, 'N': N, 'steps': steps, 'S': S_, 'hist': hist}
        c.update(kw)
        return c

    def body():
        rt.reset()
        cached = build()
        # history: whatever the same model decoded before
        if hist != 'fresh':
            n0 = N if hist in ('same', 'longer') else (N % 2) + 1
            t0 = steps + 1 if hist == 'longer' else 2
            mem0 = rows('prev_enc', S_, n0)
            x0 = rows('prev_x', t0, n0)
            for t in range(1, t0 + 1):
                cached.infer(x0[:t].clone(), mem0.clone(), is_cached=True)
        mem = rows('enc', S_, N)
        x = rows('x', steps, N)
        plain = build()
        outs = []
        for t in range(1, steps + 1):
            # every call gets its own input tensors, as the engine's embedding produces them (in-place writes into an input stay local)
            oc = cached.infer(x[:t].clone(), mem.clone(), is_cached=True)
            ou = plain.infer(x[:t].clone(), mem.clone(), is_cached=False)
            outs.append((oc, ou))
        ref = rt.masked_decoder_reference(build(), x.clone(), mem.clone())
        return outs, ref

    for p, res, exc in H.explore(body):
        if exc is not None:
            H.fail(K + 'exception:' + type(exc).__name__, 'raised %r' % (exc,), lambda m_: case(m_, error=repr(exc)[:300]))
            continue
        outs, ref = res
        for t, (oc, ou) in enumerate(outs, 1):
            for n in range(N):
                c, u, r = oc.rows[n][0], ou.rows[n][0], ref.rows[(t - 1) * N + n][0]
                bad = _terms_with(c, ('stale!', 'prev_'))
                if bad:
                    H.fail(K + 'stale-cache-read', 'step %d, line %d: the cached result depends on memory that the current batch never wrote (%s)' % (t, n, sorted(bad)[:3]),
                           lambda m_: case(m_, step=t, line=n, reads=sorted(bad)[:6]))
                    continue
                other = _terms_with(c, tuple('x_%d_%d' % (l, b) for l in range(steps) for b in range(N) if b != n) + tuple('enc_%d_%d' % (s, b) for s in range(S_) for b in range(N) if b != n))
                if other:
                    H.fail(K + 'depends-on-other-line', 'step %d: the result of line %d depends on another line of its batch (%s)' % (t, n, sorted(other)[:3]),
                           lambda m_: case(m_, step=t, line=n, reads=sorted(other)[:6]))
                    continue
                if not c.eq(u):
                    H.claim(c == u, K + 'cached-differs-from-recomputed', 'step %d, line %d: decoding with caches differs from recomputing the step from scratch' % (t, n),
                            lambda m_: case(m_, step=t, line=n))
                else:
                    H.obligations += 1
                if not c.eq(r):
                    H.claim(c == r, K + 'cached-differs-from-masked-forward', 'step %d, line %d: decoding with caches differs from the masked full forward pass' % (t, n),
                            lambda m_: case(m_, step=t, line=n))
                else:
                    H.obligations += 1
        H.witnesses.append({'mode': 'decode', 'layers': layers, 'heads': heads, 'N': N, 'steps': steps, 'S': S_, 'hist': hist, 'expect': 'equal'})
    return H.result()


def _run_post(task, patches):
    """the transcription is free of boundary and ignore symbols: everything from the first boundary on is dropped, ignore symbols are removed"""
    mods = rt.make_torch()
    torch = mods['torch']
    torch.tensor = lambda x, device=None, dtype=None: list(x)
    H = Harness(patches, shim_map=mods, extra_builtins={'print': lambda *a, **k: None})
    import sys
    eng = H.load('pero_ocr.ocr_engine.transformer_ocr_engine')
    n = task['n']
    K = 'C20:postprocess:'
    labs = [z3.Int('label_%d' % i) for i in range(n)]
    BOUND, IGN = 7, 8

    def case(m_, **kw):
        c = {'mode': 'postprocess', 'labels': [mv(m_, S(v)) for v in labs]}
        c.update(kw)
        return c

    def body():
        for v in labs:
            core.assume(z3.And(v >= 0, v <= 8))
        e = object.__new__(eng.TransformerEngineLineOCR)

        class T(list):
            device = 'cpu'
        line = [S(v) for v in labs]
        return e.postprocess_decoded(T([line]), IGN, BOUND)

    for p, res, exc in H.explore(body):
        if exc is not None:
            H.fail(K + 'exception:' + type(exc).__name__, 'raised %r' % (exc,), lambda m_: case(m_))
            continue
        out = list(res[0])
        conj = [z3.And(core.lift(x) != BOUND, core.lift(x) != IGN) for x in out]
        H.claim(z3.And(*conj) if conj else True, K + 'boundary-or-ignore-kept', 'a transcription contains the boundary or the ignore symbol', lambda m_: case(m_, got=[mv(m_, x) for x in out]))
        # exactly the legitimate symbols before the first boundary, in order
        exp = []
        stop = z3.BoolVal(False)
        conds = []
        for v in labs:
            stop = z3.Or(stop, v == BOUND)
            conds.append(z3.And(z3.Not(stop), v != IGN))
        cnt = sum(z3.If(c, 1, 0) for c in conds)
        H.claim(cnt == len(out), K + 'wrong-length', 'symbols lost or invented by post-processing', lambda m_: case(m_, got=[mv(m_, x) for x in out]))
        H.witness(lambda m_: case(m_, expect=[mv(m_, x) for x in out]))
    return H.result()


# -- transcribe_batch: the greedy loop over an abstract network ---------------------------------------------------------------

class IT:
    """small integer tensor (nested python lists of symbolic / concrete integers): just what transcribe_batch uses"""

    def __init__(self, d, ncols=None):
        self.d = d
        self.device = 'cpu'
        self.ncols = len(d[0]) if d and isinstance(d[0], list) else ncols      # width of a 2-D tensor, kept when it has no rows

    @property
    def shape(self):
        sh, x = [], self.d
        while isinstance(x, list):
            sh.append(len(x))
            x = x[0] if x else None
        return tuple(sh)

    def __len__(self):
        return len(self.d)

    def unsqueeze(self, dim):
        assert dim == 0
        return IT([self.d])

    def to(self, *a, **k):
        return self

    def __iter__(self):
        return iter([IT(x) if isinstance(x, list) else x for x in self.d])

    def __getitem__(self, key):
        if isinstance(key, tuple):
            a, b = key
            rows = self.d[a]
            if isinstance(a, slice):
                return IT([r[b] for r in rows])
            r = rows[b]
            return IT(r) if isinstance(r, list) else r
        r = self.d[key]
        if isinstance(key, slice):
            return IT(r, self.ncols)
        return IT(r) if isinstance(r, list) else r

    def permute(self, a, b):
        assert (a, b) == (1, 0)
        rows = self.d
        n = len(rows[0]) if rows else (self.ncols or 0)
        return IT([[r[j] for r in rows] for j in range(n)], len(rows))

    def _cmp(self, o, f):
        return IT([f(x, o) for x in self.d])

    def __ne__(self, o):
        return self._cmp(o, lambda x, y: x != y)

    def __eq__(self, o):
        return self._cmp(o, lambda x, y: x == y)

    def __lt__(self, o):
        return self._cmp(o, lambda x, y: x < y)

    def __le__(self, o):
        return self._cmp(o, lambda x, y: x <= y)

    def __gt__(self, o):
        return self._cmp(o, lambda x, y: x > y)

    def __ge__(self, o):
        return self._cmp(o, lambda x, y: x >= y)

    __hash__ = None

    def __imul__(self, o):
        out = []
        for x, y in zip(self.d, o.d):
            if isinstance(y, SB):
                y = S(z3.If(y.e, 1, 0))
            elif isinstance(y, bool):
                y = int(y)
            out.append(x * y)
        self.d = out
        return self


class _Hist:
    """label embeddings so far: one list of tokens per step"""

    def __init__(self, steps, n=None):
        self.steps = steps

    def to(self, *a, **k):
        return self

    def unsqueeze(self, dim):
        return self


def _run_greedy(task, patches):
    N, cap = task['N'], task['cap']
    K = 'C20:greedy:'
    BOUND, IGN = 2, 3
    # the network: the arg-max symbol of a line is a function of that line and of the symbols it was fed so far
    nets = [z3.Function('net_line_%d' % n, *([z3.IntSort()] * (cap + 3))) for n in range(N)]
    PAD = -1

    def sample(line, prefix):
        args = [core.lift(x) if isinstance(x, S) else z3.IntVal(int(x)) for x in prefix] + [z3.IntVal(PAD)] * (cap + 2 - len(prefix))
        v = nets[line](*args)
        core.axiom(z3.And(v >= 0, v <= 3))
        return S(v)

    tmods = rt.make_torch()
    torch = tmods['torch']
    torch.long = 'long'

    class _Lines:
        def __init__(self, ids, shape):
            self.ids, self.shape = ids, shape

        def to(self, *a, **k):
            return self

        def float(self):
            return self

        def __itruediv__(self, o):
            return self

        def __len__(self):
            return len(self.ids)

    class _Enc:
        def __init__(self, ids):
            self.ids = ids
            self.shape = (1, len(ids), 1)

    class _Dec:
        def __init__(self, hist, enc):
            self.hist, self.enc = hist, enc

    torch.from_numpy = lambda inp: _Lines(inp.ids, inp.shape)
    torch.tensor = lambda x, dtype=None, device=None: IT(list(x))
    torch.full = lambda shape, v, dtype=None, device=None: IT([v] * shape[0])
    torch.empty = lambda shape, **k: _Hist([])

    def cat(ts, dim=0):
        ts = list(ts)
        if isinstance(ts[0], _Hist):
            return _Hist([st for t in ts for st in t.steps])
        return IT([r for t in ts for r in t.d])
    torch.cat = cat

    def argmax(x, dim=-1):
        assert isinstance(x, _Dec)
        out = []
        for pos, line in enumerate(x.enc.ids):
            out.append(sample(line, [st[pos] for st in x.hist.steps]))
        return IT(out)
    torch.argmax = argmax

    class _Stack:
        def permute(self, *a):
            return self
    torch.stack = lambda xs: _Stack()
    torch.no_grad = lambda: None
    torch.device = lambda *a: 'cpu'

    class _Net:
        def encode(self, lines):
            return _Enc(lines.ids)

        def dec_embeder(self, tokens):
            return _Hist([list(tokens.d)])

        def pos_encoder(self, h):
            return h

        class trans_decoder:
            @staticmethod
            def infer(h, enc, is_cached=False):
                return _Dec(h, enc)

        def dec_out_proj(self, x):
            return x

    H = Harness(patches, shim_map=tmods, extra_builtins={'print': lambda *a, **k: None})
    eng = H.load('pero_ocr.ocr_engine.transformer_ocr_engine')

    class _Inp:
        def __init__(self, ids):
            self.ids = ids
            self.shape = (len(ids), 3, 4, 4 * cap)

        def __len__(self):
            return len(self.ids)

    def engine():
        e = object.__new__(eng.TransformerEngineLineOCR)
        e.device = 'cpu'
        e.characters = ['a', 'b', '\u200b', '']
        e.sentence_boundary_ind, e.ignore_ind = BOUND, IGN
        e.net = _Net()
        return e

    state = {}

    def case(m_, **kw):
        # the symbols each line's network emits along its own greedy path (what a real stand-in network has to reproduce)
        seqs = []
        for n in range(N):
            seq, prefix = [], [BOUND]
            for t in range(cap + 2):
                args = [z3.IntVal(int(x)) for x in prefix] + [z3.IntVal(PAD)] * (cap + 2 - len(prefix))
                v = m_.eval(nets[n](*args), model_completion=True).as_long()
                v = min(max(v, 0), 3)
                seq.append(v)
                prefix.append(v)
                if len(prefix) > cap + 2:
                    break
            seqs.append(seq)
        c = {'mode': 'greedy', 'N': N, 'cap': cap, 'samples': seqs}
        c.update(kw)
        return c

    def body():
        together = engine().transcribe_batch(_Inp(list(range(N))), is_cached=True)[0]
        alone = [engine().transcribe_batch(_Inp([n]), is_cached=True)[0][0] for n in range(N)]
        return together, alone

    for p, res, exc in H.explore(body):
        if exc is not None:
            H.fail(K + 'exception:' + type(exc).__name__, 'raised %r' % (exc,), lambda m_: case(m_, error=repr(exc)[:300]))
            continue
        together, alone = res
        for n in range(N):
            a, b = list(together[n].d), list(alone[n].d)
            if len(a) != len(b):
                H.fail(K + 'batch-dependent', 'line %d gets %d symbols inside the batch and %d when decoded alone' % (n, len(a), len(b)), lambda m_: case(m_, line=n))
                continue
            if a:
                H.claim(z3.And(*[core.lift(x) == core.lift(y) for x, y in zip(a, b)]), K + 'batch-dependent',
                        'the transcription of line %d inside a batch differs from its transcription when decoded alone' % n, lambda m_: case(m_, line=n))
            conj = [z3.And(core.lift(x) != BOUND, core.lift(x) != IGN) for x in a]
            if conj:
                H.claim(z3.And(*conj), K + 'boundary-or-ignore-kept', 'a transcription contains the boundary or the ignore symbol', lambda m_: case(m_, line=n))
        H.witness(lambda m_: case(m_, expect=[[mv(m_, x) for x in together[n].d] for n in range(N)]))
    return H.result()


_F = 'pero_ocr/ocr_engine/transformer.py'


def canaries(tier):
    q = [t for t in tasks('quick') if t['mode'] == 'decode']
    return [
        {'name': 'cross-attention cache rebuilt only when it does not exist (stale encoder keys after a batch of the same size)',
         'patches': [(_F, '        if self.linear_cache is None or seq_len == 1:', '        if self.linear_cache is None:')], 'tasks': [t for t in q if t['hist'] != 'fresh']},
        {'name': 'layer memory not reset when the batch size changes',
         'patches': [(_F, '        if self.memory_tgt is not None and self.memory_tgt.shape[1] != tgt.shape[1]:\n            self.memory_tgt = None\n', '')],
         'tasks': [t for t in q if t['hist'] == 'different'], 'error_counts': True},
        {'name': 'self-attention keys / values taken without the newest position',
         'patches': [(_F, 'k, v = self.linear_cache[:seq_len, :, embedding_len:].chunk(2, axis=-1)', 'k, v = self.linear_cache[:max(seq_len - 1, 1), :, embedding_len:].chunk(2, axis=-1)')], 'tasks': q},
        {'name': 'layer memory written one row too early', 'patches': [(_F, '        self.memory_tgt[seq_len - 1, :, :] = tgt_single[-1]', '        self.memory_tgt[max(seq_len - 2, 0), :, :] = tgt_single[-1]')],
         'tasks': q},
    ]

"""C20 -- cached transformer decoding equals recomputation, per line and per batch (the cache bookkeeping).

Symbolic execution of CustomMultiheadAttention.infer / cached_forward, DecoderLayer.infer and Decoder.infer
(pero_ocr/ocr_engine/transformer.py) and of TransformerEngineLineOCR.postprocess_decoded over a ROW-LEVEL model of torch
(symx/rowtorch.py): a tensor is a grid of rows, every operation along the embedding dimension (linear maps, head split,
scaling, dot products, soft-max, weighted sums, layer norm, ReLU) is an uninterpreted function of the rows it reads,
every operation that only moves data (slicing, assignment into caches, view, transpose, chunk, bmm's indexing) runs
concretely, and torch.empty() returns fresh 'stale' constants.  Equality of the cached, the recomputed and the masked
full forward results is then equality of terms, decided by z3 in the theory of uninterpreted functions.
"""
import itertools
import types
import z3

from symx import core, rowtorch as rt
from symx.core import S, SB
from symx.harness import Harness, mv

ID = 'C20'

META = {
    'functions': [
        'pero_ocr/ocr_engine/transformer.py:CustomMultiheadAttention.infer', 'pero_ocr/ocr_engine/transformer.py:CustomMultiheadAttention.cached_forward',
        'pero_ocr/ocr_engine/transformer.py:DecoderLayer.infer', 'pero_ocr/ocr_engine/transformer.py:Decoder.infer',
        'pero_ocr/ocr_engine/transformer_ocr_engine.py:TransformerEngineLineOCR.postprocess_decoded',
    ],
    'bounds': {
        'quick': 'decoders of 1..2 layers, 1..2 heads, batch sizes 1..2, 3 decoding steps, encoder output of 2 positions, max_seq_len = steps + 3; histories: fresh model, '
                 'a previous batch of the same size, a previous batch of a different size, a previous batch that ran longer; postprocess_decoded on '
                 'symbolic label sequences of length <= 3',
        'thorough': '3 layers, 3 heads, batch size 3, 4 steps, encoder output of 3 positions',
    },
    'assumptions': [
        'row-level semantics of torch: linear layers, layer norm, ReLU, soft-max, dot products and weighted sums act on whole rows and are deterministic functions of their arguments (uninterpreted); '
        'nn.MultiheadAttention.forward and the masked post-norm decoder layer are reference implementations written from the PyTorch documentation with the same functions',
        'floating-point round-off (cached and recomputed results differ in the last bits on real hardware) is outside',
        'the encoder, the positional encoding and the greedy arg-max loop of transcribe_batch are outside (inputs to the decoder are arbitrary rows)',
    ],
    'outside': ['bit-identical floats', 'beam search (cache_index_select), reallocate_caches', 'the encoder and transcribe_batch\'s loop (termination by the length cap is read off the code, not encoded)'],
    'stubs': ['torch, torch.nn, torch.nn.functional -> symx.rowtorch', 'torch.empty -> fresh stale constants'],
}

E = 2
FF = 4
MAXLEN = 5


def tasks(tier):
    ts = []
    if tier == 'quick':
        cfgs = itertools.product((1, 2), (1, 2), (1, 2))
        steps, S_ = 3, 2
    else:
        cfgs = itertools.product((1, 2, 3), (1, 2, 3), (1, 2, 3))
        steps, S_ = 4, 3
    for layers, heads, N in cfgs:
        for hist in ('fresh', 'same', 'different', 'longer'):
            ts.append({'mode': 'decode', 'layers': layers, 'heads': heads, 'N': N, 'steps': steps, 'S': S_, 'hist': hist})
    ts.append({'mode': 'postprocess', 'n': 3})
    return ts


def _terms_with(e, prefixes):
    seen, todo, hits = set(), [e], set()
    while todo:
        x = todo.pop()
        if x.get_id() in seen:
            continue
        seen.add(x.get_id())
        if z3.is_const(x) and x.decl().kind() == z3.Z3_OP_UNINTERPRETED:
            n = x.decl().name()
            if any(n.startswith(p) for p in prefixes):
                hits.add(n)
        todo.extend(x.children())
    return hits


def run_task(task, patches=None):
    if task['mode'] == 'postprocess':
        return _run_post(task, patches)
    mods = rt.make_torch()
    H = Harness(patches, shim_map=mods, extra_builtins={'print': lambda *a, **k: None})
    heads = task['heads']
    emb = E * heads if heads == 3 else (E if heads <= 2 else E)
    emb = 6 if heads == 3 else 2 if heads <= 2 else 2
    rt.set_embed(emb)
    tr = H.load('pero_ocr.ocr_engine.transformer')
    layers, N, steps, S_ = task['layers'], task['N'], task['steps'], task['S']
    hist = task['hist']
    K = 'C20:decode:'

    def build():
        rt.reset_params()
        return tr.Decoder(layers, emb, heads, FF, 0.0, max_seq_len=steps + 3)

    def rows(prefix, L, n):
        return rt.RT([(rt.const('%s_%d_%d' % (prefix, l, b)),) for l in range(L) for b in range(n)], (L, n), 1, emb)

    def case(m_, **kw):
        c = {'mode': 'decode', 'layers': layers, 'heads': heads, 'N': N, 'steps': steps, 'S': S_, 'hist': hist}
        c.update(kw)
        return c

    def body():
        rt.reset()
        cached = build()
        # history: whatever the same model decoded before
        if hist != 'fresh':
            n0 = N if hist in ('same', 'longer') else (N % 2) + 1
            t0 = steps + 1 if hist == 'longer' else 2
            mem0 = rows('prev_enc', S_, n0)
            x0 = rows('prev_x', t0, n0)
            for t in range(1, t0 + 1):
                cached.infer(x0[:t], mem0, is_cached=True)
        mem = rows('enc', S_, N)
        x = rows('x', steps, N)
        plain = build()
        outs = []
        for t in range(1, steps + 1):
            oc = cached.infer(x[:t], mem, is_cached=True)
            ou = plain.infer(x[:t], mem, is_cached=False)
            outs.append((oc, ou))
        ref = rt.masked_decoder_reference(build(), x, mem)
        return outs, ref

    for p, res, exc in H.explore(body):
        if exc is not None:
            H.fail(K + 'exception:' + type(exc).__name__, 'raised %r' % (exc,), lambda m_: case(m_, error=repr(exc)[:300]))
            continue
        outs, ref = res
        for t, (oc, ou) in enumerate(outs, 1):
            for n in range(N):
                c, u, r = oc.rows[n][0], ou.rows[n][0], ref.rows[(t - 1) * N + n][0]
                bad = _terms_with(c, ('stale!', 'prev_'))
                if bad:
                    H.fail(K + 'stale-cache-read', 'step %d, line %d: the cached result depends on memory that the current batch never wrote (%s)' % (t, n, sorted(bad)[:3]),
                           lambda m_: case(m_, step=t, line=n, reads=sorted(bad)[:6]))
                    continue
                other = _terms_with(c, tuple('x_%d_%d' % (l, b) for l in range(steps) for b in range(N) if b != n) + tuple('enc_%d_%d' % (s, b) for s in range(S_) for b in range(N) if b != n))
                if other:
                    H.fail(K + 'depends-on-other-line', 'step %d: the result of line %d depends on another line of its batch (%s)' % (t, n, sorted(other)[:3]),
                           lambda m_: case(m_, step=t, line=n, reads=sorted(other)[:6]))
                    continue
                if not c.eq(u):
                    H.claim(c == u, K + 'cached-differs-from-recomputed', 'step %d, line %d: decoding with caches differs from recomputing the step from scratch' % (t, n),
                            lambda m_: case(m_, step=t, line=n))
                else:
                    H.obligations += 1
                if not c.eq(r):
                    H.claim(c == r, K + 'cached-differs-from-masked-forward', 'step %d, line %d: decoding with caches differs from the masked full forward pass' % (t, n),
                            lambda m_: case(m_, step=t, line=n))
                else:
                    H.obligations += 1
        H.witnesses.append({'mode': 'decode', 'layers': layers, 'heads': heads, 'N': N, 'steps': steps, 'S': S_, 'hist': hist, 'expect': 'equal'})
    return H.result()


def _run_post(task, patches):
    """the transcription is free of boundary and ignore symbols: everything from the first boundary on is dropped, ignore symbols are removed"""
    mods = rt.make_torch()
    torch = mods['torch']
    torch.tensor = lambda x, device=None, dtype=None: list(x)
    H = Harness(patches, shim_map=mods, extra_builtins={'print': lambda *a, **k: None})
    import sys
    eng = H.load('pero_ocr.ocr_engine.transformer_ocr_engine')
    n = task['n']
    K = 'C20:postprocess:'
    labs = [z3.Int('label_%d' % i) for i in range(n)]
    BOUND, IGN = 7, 8

    def case(m_, **kw):
        c = {'mode': 'postprocess', 'labels': [mv(m_, S(v)) for v in labs]}
        c.update(kw)
        return c

    def body():
        for v in labs:
            core.assume(z3.And(v >= 0, v <= 8))
        e = object.__new__(eng.TransformerEngineLineOCR)

        class T(list):
            device = 'cpu'
        line = [S(v) for v in labs]
        return e.postprocess_decoded(T([line]), IGN, BOUND)

    for p, res, exc in H.explore(body):
        if exc is not None:
            H.fail(K + 'exception:' + type(exc).__name__, 'raised %r' % (exc,), lambda m_: case(m_))
            continue
        out = list(res[0])
        conj = [z3.And(core.lift(x) != BOUND, core.lift(x) != IGN) for x in out]
        H.claim(z3.And(*conj) if conj else True, K + 'boundary-or-ignore-kept', 'a transcription contains the boundary or the ignore symbol', lambda m_: case(m_, got=[mv(m_, x) for x in out]))
        # exactly the legitimate symbols before the first boundary, in order
        exp = []
        stop = z3.BoolVal(False)
        conds = []
        for v in labs:
            stop = z3.Or(stop, v == BOUND)
            conds.append(z3.And(z3.Not(stop), v != IGN))
        cnt = sum(z3.If(c, 1, 0) for c in conds)
        H.claim(cnt == len(out), K + 'wrong-length', 'symbols lost or invented by post-processing', lambda m_: case(m_, got=[mv(m_, x) for x in out]))
        H.witness(lambda m_: case(m_, expect=[mv(m_, x) for x in out]))
    return H.result()


_F = 'pero_ocr/ocr_engine/transformer.py'


def canaries(tier):
    q = [t for t in tasks('quick') if t['mode'] == 'decode']
    return [
        {'name': 'cross-attention cache rebuilt only when it does not exist (stale encoder keys after a batch of the same size)',
         'patches': [(_F, '        if self.linear_cache is None or seq_len == 1:', '        if self.linear_cache is None:')], 'tasks': [t for t in q if t['hist'] != 'fresh']},
        {'name': 'layer memory not reset when the batch size changes',
         'patches': [(_F, '        if self.memory_tgt is not None and self.memory_tgt.shape[1] != tgt.shape[1]:\n            self.memory_tgt = None\n', '')],
         'tasks': [t for t in q if t['hist'] == 'different'], 'error_counts': True},
        {'name': 'self-attention keys / values taken without the newest position',
         'patches': [(_F, 'k, v = self.linear_cache[:seq_len, :, embedding_len:].chunk(2, axis=-1)', 'k, v = self.linear_cache[:max(seq_len - 1, 1), :, embedding_len:].chunk(2, axis=-1)')], 'tasks': q},
        {'name': 'layer memory written one row too early', 'patches': [(_F, '        self.memory_tgt[seq_len - 1, :, :] = tgt_single[-1]', '        self.memory_tgt[max(seq_len - 2, 0), :, :] = tgt_single[-1]')],
         'tasks': q},
    ]

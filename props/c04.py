"""C04 -- greedy transcription is the CTC collapse of the arg-max path.

Symbolic execution of greedy_decode_ctc (pytorch_ocr_engine.py, 3-D branch, through a minimal torch shim),
GreedyDecoder.__call__ (decoders.py) and greedy_filtration (char_confidences.py) on a score tensor
N x C x T of symbolic reals with a unique maximum per frame.
"""
import itertools
import types
import z3

from symx import core
from symx.core import S
from symx import symnp
from symx.harness import Harness, mv

ID = 'C04'

META = {
    'functions': [
        'pero_ocr/ocr_engine/pytorch_ocr_engine.py:greedy_decode_ctc',
        'pero_ocr/decoding/decoders.py:GreedyDecoder.__call__',
        'pero_ocr/char_confidences.py:greedy_filtration',
    ],
    'bounds': {
        'quick': 'N = 1 line with T <= 3 frames and N = 2 lines with T <= 2, C = 3 classes (blank last); scores symbolic reals (every arg-max pattern)',
        'thorough': 'N = 1 with T <= 4 and C in {3, 4}; N = 2 with T <= 3 (C = 3); N = 3 with T = 2',
    },
    'assumptions': [
        'every frame has a unique maximum (with ties "the arg-max path" is ambiguous and torch / numpy need not agree)',
        'scores are reals of magnitude < 1000 (the code pads with -1000 / +1000)',
        "GreedyDecoder's normalisation guard is satisfied (stubbed: it is C02's clause); the three implementations read the same tensor",
    ],
    'outside': ['ties; the 2-D branch of greedy_decode_ctc (no caller uses it); run_ocr tensor permutations (need a network)'],
    'stubs': ['torch -> minimal shim over the symnp array class (cat, argmax, slicing, masks)', 'logprobs_max_deviation -> 0'],
}


def tasks(tier):
    ts = []
    if tier == 'quick':
        for T in (1, 2, 3):
            ts.append({'N': 1, 'C': 3, 'T': T})
        for T in (1, 2):
            ts.append({'N': 2, 'C': 3, 'T': T})
    else:
        for T in (1, 2, 3, 4):
            for C in (3, 4):
                t = {'N': 1, 'C': C, 'T': T}
                if T == 4:
                    t['split'] = 32
                ts.append(t)
        for T in (1, 2, 3):
            t = {'N': 2, 'C': 3, 'T': T}
            if T == 3:
                t['split'] = 32
            ts.append(t)
        ts.append({'N': 3, 'C': 3, 'T': 2, 'split': 32})
    ts.sort(key=lambda t: -(t['C'] ** (t['N'] * t['T'])))
    return ts


def torch_shim():
    t = types.ModuleType('torch')

    def cat(tensors, axis=0, dim=None):
        return symnp.concatenate([x.copy() for x in tensors], dim if dim is not None else axis)

    def argmax(x, dim=None):
        return symnp.asarray(x).argmax(dim)
    def roll(x, shifts, dims=None):
        x = symnp.asarray(x)
        if dims is None:
            raise NotImplementedError('torch.roll without dims')
        n = x.shape[dims]
        sh = shifts % n if n else 0
        if sh == 0:
            return x.copy()
        key_a = [slice(None)] * x.ndim
        key_b = [slice(None)] * x.ndim
        key_a[dims] = slice(n - sh, n)
        key_b[dims] = slice(0, n - sh)
        return symnp.concatenate([x[tuple(key_a)].copy(), x[tuple(key_b)].copy()], dims)
    t.cat = cat
    t.argmax = argmax
    t.roll = roll

    def _missing(name):
        raise NotImplementedError('torch.%s is not provided by the torch shim' % name)
    t.__getattr__ = _missing
    from symx import shims
    t.nn = shims.Inert('torch.nn')
    t.cuda = shims.Inert('torch.cuda')
    t.no_grad = lambda: shims.InertBase()
    t.device = lambda *a: 'cpu'
    return t


def collapse(path, blank):
    out, prev = [], None
    for s in path:
        if s != prev and s != blank:
            out.append(s)
        prev = s
    return out


def run_task(task, patches=None):
    th = torch_shim()
    H = Harness(patches, shim_map={'torch': th, 'torch.nn': th.nn, 'torch.cuda': th.cuda})
    eng = H.load('pero_ocr.ocr_engine.pytorch_ocr_engine')
    dec = H.load('pero_ocr.decoding.decoders')
    cc = H.load('pero_ocr.char_confidences')
    dec.logprobs_max_deviation = lambda x: 0
    dec.logsumexp = lambda x: 0.0
    N, C, T = task['N'], task['C'], task['T']
    chars = [chr(97 + i) for i in range(C - 1)]
    sv = [[[z3.Real('s_%d_%d_%d' % (n, c, t)) for t in range(T)] for c in range(C)] for n in range(N)]
    K = 'C04:'

    def case(m_, **kw):
        c = {'N': N, 'C': C, 'T': T, 'scores': [[[mv(m_, S(sv[n][c_][t])) for t in range(T)] for c_ in range(C)] for n in range(N)]}
        c.update(kw)
        return c

    def body():
        am = []
        for n in range(N):
            row = []
            for t in range(T):
                col = [sv[n][c][t] for c in range(C)]
                for x in col:
                    core.assume(z3.And(x > -999, x < 999))
                core.assume(z3.Or(*[z3.And(*[col[c] > col[d] for d in range(C) if d != c]) for c in range(C)]))
                row.append(core.concretize(core.sargmax([S(x) for x in col])))
            am.append(row)
        scores = symnp.A([S(sv[n][c][t]) for n in range(N) for c in range(C) for t in range(T)], (N, C, T))
        out = eng.greedy_decode_ctc(scores, chars)
        out2, out3 = [], []
        for n in range(N):
            lp = symnp.A([S(sv[n][c][t]) for t in range(T) for c in range(C)], (T, C))
            out2.append(dec.GreedyDecoder(chars + [dec.BLANK_SYMBOL])(lp).best_hyp())
            out3.append(cc.greedy_filtration(lp, chars)[0])
        return am, out, out2, out3

    if task.get('split_only'):
        return H.result(prefixes=H.split(body, task['split_only']))
    for p, res, exc in H.explore(body, root=task.get('prefix')):
        if exc is not None:
            H.fail(K + 'exception:' + type(exc).__name__, 'raised %r' % (exc,), lambda m_: case(m_))
            continue
        am, out, out2, out3 = res
        exp = [''.join(chars[s] for s in collapse(row, C - 1)) for row in am]
        if list(out) != exp:
            H.fail(K + 'engine-decoder', 'greedy_decode_ctc is not the CTC collapse of the arg-max path', lambda m_: case(m_, argmax=am, got=list(out), expected=exp))
        if list(out2) != exp:
            H.fail(K + 'standalone-decoder', 'GreedyDecoder is not the CTC collapse of the arg-max path', lambda m_: case(m_, argmax=am, got=list(out2), expected=exp))
        if list(out3) != exp:
            H.fail(K + 'greedy-filtration', 'greedy_filtration text is not the CTC collapse of the arg-max path', lambda m_: case(m_, argmax=am, got=list(out3), expected=exp))
        H.witness(lambda m_: case(m_, expect=exp), extra=[z3.Or(a - b > 1, b - a > 1) for n in range(N) for t in range(T)
                                                          for a, b in itertools.combinations([sv[n][c][t] for c in range(C)], 2)])
    return H.result()


_E = 'pero_ocr/ocr_engine/pytorch_ocr_engine.py'
_D = 'pero_ocr/decoding/decoders.py'
_CC = 'pero_ocr/char_confidences.py'


def canaries(tier):
    q = [t for t in tasks('quick')]
    return [
        {'name': 'repeat mask shifted (best[:, :-1] instead of best[:, 1:])', 'patches': [(_E, '    best = best[:, 1:]\n', '    best = best[:, :-1]\n')], 'tasks': q},
        {'name': 'class shift dropped', 'patches': [(_E, 'best = torch.argmax(scores_probs, 1) + 1', 'best = torch.argmax(scores_probs, 1)')], 'tasks': q, 'error_counts': True},
        {'name': 'forced blank frame not forced (first frame non-blank lost when equal to itself)',
         'patches': [(_E, '        scores_probs[:, -1, 0] = 1000\n', '')], 'tasks': q},
        {'name': 'blank dropped before merging repeats in GreedyDecoder',
         'patches': [(_D, '        reduced = [g[0] for g in itertools.groupby(argmaxes)]\n        decoded = self.symbol_separator.join(self._letters[ind] for ind in reduced if ind != self._blank_ind)',
                      '        reduced = [g[0] for g in itertools.groupby(ind for ind in argmaxes if ind != self._blank_ind)]\n        decoded = self.symbol_separator.join(self._letters[ind] for ind in reduced)')],
         'tasks': q},
        {'name': 'greedy_filtration does not reset on blank', 'patches': [(_CC, '        else:\n            last_char = None\n', '')], 'tasks': q},
    ]

"""C02 replay against the real decoder (run under /venv/bin/python)."""
import itertools
import math
from fractions import Fraction

import numpy as np

from pero_ocr.decoding import decoders as dec

BIG = 10 ** 6
NEG = float('-inf')


def _f(x):
    return float(Fraction(x)) if isinstance(x, str) else float(x)


def _logits(case):
    P = [[_f(x) for x in row] for row in case['P']]
    with np.errstate(divide='ignore'):
        return np.log(np.array(P, dtype=float)), P


def collapse(path, blank):
    out, prev = [], None
    for s in path:
        if s != prev and s != blank:
            out.append(s)
        prev = s
    return tuple(out)


def ctc_ref(P):
    T, C = len(P), len(P[0])
    ref = {}
    for path in itertools.product(range(C), repeat=T):
        m = 1.0
        for t, s in enumerate(path):
            m *= P[t][s]
        if m > 0:
            key = collapse(path, C - 1)
            ref[key] = ref.get(key, 0.0) + m
    return ref


def ref_beam_search(P, k, sel):
    """independent frame-synchronous prefix beam search in the probability domain; with ties at the k-th place every
    admissible tie-break is followed: returns the list of possible final {prefix: score} dictionaries"""
    T, C = len(P), len(P[0])
    blank = C - 1
    thr = math.exp(-10)
    finals = []

    def step(t, beam):
        if t == T:
            finals.append({y: b + nb for y, (b, nb) in beam.items()})
            return
        selected = [c for c in range(C - 1) if (sel == 'all' or P[t][c] > thr)]
        cand = {}
        for y, (b, nb) in beam.items():
            e = cand.setdefault(y, [0.0, 0.0])
            e[0] += (b + nb) * P[t][blank]
            if y and y[-1] in selected:
                e[1] += nb * P[t][y[-1]]
            for c in selected:
                e2 = cand.setdefault(y + (c,), [0.0, 0.0])
                e2[1] += P[t][c] * (b + (nb if not (y and y[-1] == c) else 0.0))
        if not selected:
            return step(t + 1, {y: (cand[y][0], 0.0) for y in beam})
        items = sorted(((v[0] + v[1], y) for y, v in cand.items() if v[0] + v[1] > 0), reverse=True)
        if len(items) <= k:
            return step(t + 1, {y: tuple(cand[y]) for _, y in items})
        v = items[k - 1][0]
        close = lambda a: abs(a - v) <= 1e-12 * max(1.0, v)
        sure = [y for a, y in items if a > v and not close(a)]
        tied = [y for a, y in items if close(a)]
        for sub in itertools.combinations(tied, k - len(sure)):
            step(t + 1, {y: tuple(cand[y]) for y in sure + list(sub)})
            if len(finals) > 500:
                return
    step(0, {(): (1.0, 0.0)})
    return finals


def _decode(case):
    lg, P = _logits(case)
    C = lg.shape[1]
    letters = [chr(97 + i) for i in range(C - 1)] + [dec.BLANK_SYMBOL]
    kw = {}
    if case['sel'] == 'all':
        kw['relevant_logits_selector'] = lambda l: (np.arange(len(l)),)
    d = dec.CTCPrefixLogRawNumpyDecoder(letters, int(case['k']), **kw)
    with np.errstate(all='ignore'):
        boh = d(lg)
    return [(h.transcript, float(h.vis_sc)) for h in boh], P, letters


def _check(case):
    hyps, P, letters = _decode(case)
    bad = []
    ts = [t for t, _ in hyps]
    if len(set(ts)) != len(ts):
        bad.append('duplicate transcripts %r' % ts)
    ref = ctc_ref(P)
    for t, sc in hyps:
        key = tuple(letters.index(ch) for ch in t)
        true = ref.get(key, 0.0)
        if math.exp(sc) > true * (1 + 1e-9) + 1e-300:
            bad.append('over-count: %r scores %.12g, true CTC probability %.12g' % (t, math.exp(sc), true))
    k = int(case['k'])
    if k >= BIG and case['sel'] == 'all':
        got = {tuple(letters.index(ch) for ch in t): math.exp(sc) for t, sc in hyps}
        if set(got) != set(ref):
            bad.append('unpruned: transcripts %r vs all non-zero %r' % (sorted(got), sorted(ref)))
        else:
            for y in ref:
                if abs(got[y] - ref[y]) > 1e-9 * max(1.0, ref[y]):
                    bad.append('unpruned: score of %r %.12g != %.12g' % (y, got[y], ref[y]))
    finals = ref_beam_search(P, k, case['sel'])
    if len(finals) <= 500:
        got = {tuple(letters.index(ch) for ch in t): math.exp(sc) for t, sc in hyps}
        same = [rb for rb in finals if set(rb) == set(got)]
        if not same:
            bad.append('differs from reference prefix beam search under every tie-break: %r vs %r' % (sorted(got), [sorted(rb) for rb in finals[:4]]))
        elif not any(all(abs(got[y] - rb[y]) <= 1e-9 * max(1e-30, rb[y]) for y in rb) for rb in same):
            rb = same[0]
            for y in rb:
                if abs(got[y] - rb[y]) > 1e-9 * max(1e-30, rb[y]):
                    bad.append('score of %r %.12g != reference beam search %.12g' % (y, got[y], rb[y]))
    return hyps, bad


def _guard(case):
    lg, P = _logits(case)
    C = lg.shape[1]
    letters = [chr(97 + i) for i in range(C - 1)] + [dec.BLANK_SYMBOL]
    d = dec.CTCPrefixLogRawNumpyDecoder(letters, 1, relevant_logits_selector=lambda l: (np.arange(len(l)),))
    try:
        d(lg)
    except ValueError as e:
        if 'normalized' in str(e):
            return 'rejected', P
        raise
    return 'decoded', P


def replay(case):
    try:
        if case['mode'] == 'guard':
            res, P = _guard(case)
            dev = max(abs(sum(r) - 1) for r in P)
            # away from the 1e-5 knife edge only
            if res == 'decoded' and dev > 1.01e-5:
                return {'reproduced': True, 'detail': 'decoded although a row is off by %g' % dev}
            if res == 'rejected' and dev < 0.99e-5:
                return {'reproduced': True, 'detail': 'rejected although rows are within %g' % dev}
            return {'reproduced': False, 'detail': '%s, deviation %g' % (res, dev)}
        hyps, bad = _check(case)
    except Exception as e:
        return {'reproduced': True, 'detail': 'raised %r' % (e,)}
    return {'reproduced': bool(bad), 'detail': '; '.join(bad[:3]) or 'ok %r' % (hyps,)}


def check_witness(w):
    if w['mode'] == 'guard':
        res, P = _guard(w)
        return {'match': res == w['expect'], 'got': res}
    hyps, bad = _check(w)
    exp = {t: _f(v) for t, v in w['expect']}
    got = {t: math.exp(sc) for t, sc in hyps}
    ok = not bad and set(got) == set(exp) and all(abs(got[t] - exp[t]) <= 1e-9 * max(1e-30, exp[t]) for t in exp)
    return {'match': ok, 'got': repr(hyps), 'bad': bad[:2]}

"""C19 -- engine merging keeps, per line, the most confident engine's result.

Symbolic execution of user_scripts/merge_ocr_results.py: merge_layouts and
get_confidences on real PageLayout / RegionLayout / TextLine objects.  The
per-character confidences returned by get_line_confidence are symbolic reals
in [0, 1] (what they are is C16); every ordering / tie pattern of the engines'
mean confidences is covered by the solver.
"""
import itertools
import z3

from symx import core
from symx.core import S
from symx import symnp
from symx.harness import Harness, mv

ID = 'C19'

META = {
    'functions': [
        'user_scripts/merge_ocr_results.py:merge_layouts',
        'user_scripts/merge_ocr_results.py:get_confidences',
        'pero_ocr/core/layout.py:PageLayout.lines_iterator',
    ],
    'bounds': {
        'quick': '1..3 engines x 1..2 lines (in 1..2 regions), transcriptions of 0..2 characters (empty and None included), '
                 'per-character confidences symbolic in [0,1] or get_line_confidence failing (the 0.5 fallback), every '
                 'ordering and tie pattern of the mean confidences; identical and differing charsets; mismatching ids',
        'thorough': '4 engines x 1 line, 3 engines x 1..2 lines, 1..2 engines x 1..3 lines (lines multiply the path count; engines are what the property quantifies over), transcriptions of 0..3 characters',
    },
    'assumptions': [
        'get_line_confidence returns one value in [0,1] per character (C16) or raises ValueError; it is a stub here',
        'line fields other than confidences are opaque tokens (provenance)',
    ],
    'outside': ['more engines / lines than the bound; main() (file handling)'],
    'stubs': ['numpy -> symx.symnp', 'pero_ocr.core.confidence_estimation.get_line_confidence -> symbolic values',
              'exit() -> exception (the script calls exit(-1) on mismatching ids)'],
}


class _Exit(Exception):
    pass


def tasks(tier):
    ts = []
    Emax, Lmax, Tmax = (3, 2, 2) if tier == 'quick' else (4, 3, 3)
    for E in range(1, Emax + 1):
        for nl in range(1, Lmax + 1):
            if E * nl > 6 or (E == 4 and nl > 1):
                continue
            # transcription lengths per (engine, line): a few patterns
            pats = set()
            pats.add(tuple([1] * (E * nl)))
            pats.add(tuple([(i % (Tmax + 1)) for i in range(E * nl)]))
            pats.add(tuple([((i * 2 + 1) % (Tmax + 1)) for i in range(E * nl)]))
            pats.add(tuple([0] * (E * nl)))
            pats.add(tuple([-1] + [1] * (E * nl - 1)))
            pats.add(tuple([1] * (E * nl - 1) + [-1]))
            pats.add(tuple([Tmax] * (E * nl)))
            if E * nl <= 4:
                for p in itertools.product((0, 1, 2), repeat=E * nl):
                    pats.add(p)
            for p in sorted(pats):
                ts.append({'mode': 'merge', 'E': E, 'nl': nl, 'lens': list(p)})
    ts.append({'mode': 'self', 'nl': 2})
    ts.append({'mode': 'ids', 'E': 2, 'nl': 2})
    for t in ts:
        if t['mode'] == 'merge' and t['E'] >= 4:
            t['split'] = 16
    ts.sort(key=lambda t: -(t.get('E', 1) * t['nl'] * (1 + sum(t.get('lens', [0])))))
    return ts


def _build(layout, E, nl, lens, charsets):
    """E layouts with nl lines each (two regions when nl > 1); returns layouts and the per-line field tokens"""
    layouts = []
    for e in range(E):
        pl = layout.PageLayout(id='page', page_size=(100, 100))
        regs = [layout.RegionLayout('r0', 'poly_r0')]
        if nl > 1:
            regs.append(layout.RegionLayout('r1', 'poly_r1'))
        for li in range(nl):
            n = lens[e * nl + li]
            chars = charsets[e]
            tr = None if n == -1 else ''.join(chars[(li + k + e) % len(chars)] for k in range(n))
            line = layout.TextLine(id='l%d' % li, baseline='base_%d' % li, polygon='poly_%d' % li, heights='h_%d' % li,
                                   transcription=tr, logits='logits_%d_%d' % (e, li), characters=chars,
                                   logit_coords='coords_%d_%d' % (e, li), transcription_confidence='oldconf_%d_%d' % (e, li),
                                   index=li)
            regs[0 if li == 0 else len(regs) - 1].lines.append(line)
        pl.regions = regs
        layouts.append(pl)
    return layouts


def run_task(task, patches=None):
    H = Harness(patches)
    layout = H.load('pero_ocr.core.layout')
    mod = H.load('user_scripts.merge_ocr_results')

    def _exit(code=0):
        raise _Exit(code)
    mod.__dict__['exit'] = _exit
    if task['mode'] == 'merge':
        return _run_merge(H, layout, mod, task)
    if task['mode'] == 'self':
        return _run_self(H, layout, mod, task)
    return _run_ids(H, layout, mod, task)


def _run_merge(H, layout, mod, task):
    E, nl, lens = task['E'], task['nl'], task['lens']
    charsets = [['a', 'b', 'c'] if e % 2 == 0 else ['c', 'a', 'b', 'd'] for e in range(E)]
    cvars = {}      # (e, li) -> list of z3 Reals
    for e in range(E):
        for li in range(nl):
            cvars[(e, li)] = [z3.Real('c_%d_%d_%d' % (e, li, k)) for k in range(max(lens[e * nl + li], 0))]
    fails = {(e, li): z3.Bool('fail_%d_%d' % (e, li)) for e in range(E) for li in range(nl)}
    calls = []
    K = 'C19:merge:'

    def glc(line, c_idx):
        # identify the engine/line from the provenance token, check the label indices handed over
        tok = line.logits
        e, li = int(tok.split('_')[1]), int(tok.split('_')[2])
        exp_idx = [line.characters.index(ch) for ch in line.transcription]
        got_idx = [int(x) for x in (c_idx.d if hasattr(c_idx, 'd') else c_idx)]
        calls.append((e, li, got_idx == exp_idx))
        if core.branch(fails[(e, li)]):
            raise ValueError('Logit slice has zero length (stub)')
        return symnp.A([S(v) for v in cvars[(e, li)]], (len(cvars[(e, li)]),))
    mod.get_line_confidence = glc

    def case(m_, **kw):
        c = {'mode': 'merge', 'E': E, 'nl': nl, 'lens': lens,
             'conf': {'%d_%d' % k: [mv(m_, S(v)) for v in vs] for k, vs in cvars.items()},
             'fail': {'%d_%d' % k: mv(m_, core.SB(v)) for k, v in fails.items()}}
        c.update(kw)
        return c

    def body():
        del calls[:]
        for vs in cvars.values():
            for v in vs:
                core.assume(z3.And(v >= 0, v <= 1))
        layouts = _build(layout, E, nl, lens, charsets)
        before = [[(l.id, l.baseline, l.polygon, l.heights, l.index, l.logit_coords) for l in pl.lines_iterator()] for pl in layouts]
        mod.merge_layouts(layouts)
        return layouts, before

    if task.get('split_only'):
        return H.result(prefixes=H.split(body, task['split_only']))
    for p, res, exc in H.explore(body, root=task.get('prefix')):
        if exc is not None:
            H.fail(K + 'exception:' + type(exc).__name__, 'raised %r' % (exc,), lambda m_: case(m_))
            continue
        layouts, before = res
        if not all(ok for _, _, ok in calls):
            H.fail(K + 'label-indices', 'get_confidences hands wrong label indices to get_line_confidence', lambda m_: case(m_))
            continue
        merged = list(layouts[0].lines_iterator())
        after = [(l.id, l.baseline, l.polygon, l.heights, l.index, l.logit_coords) for l in merged]
        if after != before[0] or len(merged) != nl:
            H.fail(K + 'geometry', 'ids / geometry / order of the merged lines changed', lambda m_: case(m_, got=repr(after)))
            continue
        margins = []
        for li, ml in enumerate(merged):
            # mean confidence of engine e for this line, as a z3 term
            means = []
            for e in range(E):
                n = lens[e * nl + li]
                if n <= 0:
                    means.append(z3.RealVal(-10))
                else:
                    mean = sum(cvars[(e, li)]) / n
                    means.append(z3.If(fails[(e, li)], z3.RealVal('1/2'), mean))
            # witnesses (replayed in floats) keep the means of different engines apart: an exact tie is broken by round-off there
            margins += [z3.Or(means[a] - means[b] >= z3.RealVal('1/100'), means[b] - means[a] >= z3.RealVal('1/100')) for a in range(E) for b in range(a + 1, E)]
            got = lambda m_: {'line': li, 'logits': ml.logits, 'conf': mv(m_, ml.transcription_confidence) if isinstance(ml.transcription_confidence, S) else repr(ml.transcription_confidence)}
            tok = ml.logits
            w = int(tok.split('_')[1])
            src = list(_build(layout, E, nl, lens, charsets)[w].lines_iterator())[li]
            same_fields = (ml.transcription == src.transcription and ml.characters == src.characters and ml.logits == src.logits)
            if not same_fields:
                H.fail(K + 'mixed-fields', 'merged line mixes transcription / logits / characters of different engines',
                       lambda m_: case(m_, got=got(m_)))
                continue
            conf = ml.transcription_confidence
            if isinstance(conf, str):
                # nothing recorded: no engine may have a positive mean, and the line must be engine 0's
                ok = H.claim(z3.And(*[mn <= 0 for mn in means]), K + 'not-recorded',
                             'an engine has a positive mean confidence but no result was recorded', lambda m_: case(m_, got=got(m_)))
                if ok and w != 0:
                    H.fail(K + 'not-engine0', 'no engine is confident, yet the merged line is not the first engine\'s', lambda m_: case(m_, got=got(m_)))
                continue
            ce = core.lift(conf)
            cond = z3.And(ce == means[w], means[w] > 0, *([means[w] >= means[e] for e in range(E)] + [means[e] < means[w] for e in range(w)]))
            H.claim(cond, K + 'not-best', 'merged line is not the first engine with the highest positive mean confidence, '
                    'or the recorded confidence is not that maximum', lambda m_: case(m_, got=got(m_)))
        H.witness(lambda m_: case(m_, expect=[[l.logits, (None if isinstance(l.transcription_confidence, str) else mv(m_, l.transcription_confidence))]
                                              for l in merged]), extra=margins)
    return H.result()


def _run_self(H, layout, mod, task):
    """merging a result with itself changes nothing (same objects twice, confidences as computed)"""
    nl = task['nl']
    lens = [2] * nl
    cv = {li: [z3.Real('c_%d_%d' % (li, k)) for k in range(2)] for li in range(nl)}
    K = 'C19:self:'

    def glc(line, c_idx):
        li = int(line.logits.split('_')[2])
        return symnp.A([S(v) for v in cv[li]], (2,))
    mod.get_line_confidence = glc

    def case(m_, **kw):
        c = {'mode': 'self', 'nl': nl, 'conf': {str(k): [mv(m_, S(v)) for v in vs] for k, vs in cv.items()}}
        c.update(kw)
        return c

    def body():
        for vs in cv.values():
            for v in vs:
                core.assume(z3.And(v >= 0, v <= 1))
        pl = _build(layout, 1, nl, lens, [['a', 'b', 'c']])[0]
        snap = [(l.id, l.transcription, l.logits, tuple(l.characters), l.logit_coords, l.baseline) for l in pl.lines_iterator()]
        mod.merge_layouts([pl, pl])
        return pl, snap

    for p, res, exc in H.explore(body):
        if exc is not None:
            H.fail(K + 'exception:' + type(exc).__name__, 'raised %r' % (exc,), lambda m_: case(m_))
            continue
        pl, snap = res
        now = [(l.id, l.transcription, l.logits, tuple(l.characters), l.logit_coords, l.baseline) for l in pl.lines_iterator()]
        if now != snap:
            H.fail(K + 'changed', 'merging a layout with itself changed its lines', lambda m_: case(m_))
        H.witness(lambda m_: case(m_, expect=[list(map(str, x[:3])) for x in now]))
    return H.result()


def _run_ids(H, layout, mod, task):
    """mismatching line ids are refused (exit), matching ones are not"""
    K = 'C19:ids:'
    mod.get_line_confidence = lambda line, c_idx: symnp.A([0.5] * len(line.transcription), (len(line.transcription),))

    def body():
        ls = _build(layout, 2, 2, [1, 1, 1, 1], [['a', 'b', 'c'], ['a', 'b', 'c']])
        list(ls[1].lines_iterator())[1].id = 'other'
        try:
            mod.merge_layouts(ls)
        except _Exit:
            return 'exit'
        return 'merged'

    for p, res, exc in H.explore(body):
        if exc is not None or res != 'exit':
            H.fail(K + 'accepted', 'layouts with different line ids were merged', lambda m_: {'mode': 'ids'})
        H.witness(lambda m_: {'mode': 'ids', 'expect': 'exit'})
    return H.result()


_F = 'user_scripts/merge_ocr_results.py'


def canaries(tier):
    q = [t for t in tasks('quick') if t['mode'] == 'merge' and t['E'] in (2, 3)][:40]
    return [
        {'name': '> -> >= (last instead of first engine on ties)',
         'patches': [(_F, 'if line_confidence > best_confidence:', 'if line_confidence >= best_confidence:')], 'tasks': q},
        {'name': 'logits copied from the first engine',
         'patches': [(_F, 'merged_line.logits = line.logits', 'merged_line.logits = lines[0].logits')], 'tasks': q},
        {'name': 'best_confidence initialised once per page instead of per line',
         'patches': [(_F, '    for lines in zip(*all_lines):\n        merged_line = lines[0]\n', '    best_confidence = 0\n    for lines in zip(*all_lines):\n        merged_line = lines[0]\n'),
                     (_F, '        best_confidence = 0\n        for line in lines:\n            line_confidences', '        for line in lines:\n            line_confidences')],
         'tasks': [t for t in q if t['nl'] == 2]},
        {'name': 'character table not copied',
         'patches': [(_F, '                merged_line.characters = line.characters\n', '')], 'tasks': q},
    ]

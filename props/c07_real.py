"""C07 replay against the real BaseEngineLineOCR.process_lines with a stub network whose output for a batch row
depends only on the image placed in that row (each line image is filled with its own grey level)."""
import contextlib
import io
import math
from fractions import Fraction

import numpy as np
import scipy.sparse

from pero_ocr.ocr_engine import line_ocr_engine as eng

PAD, SS, H_PX = 32, 4, 16


def _f(x):
    return float(Fraction(x)) if isinstance(x, str) else float(x)


class Dev:
    type = 'cpu'


def _engine(b):
    e = object.__new__(eng.BaseEngineLineOCR)
    e.line_px_height = H_PX
    e.model_type = 'ctc'
    e.batch_size = b
    e.line_padding_px = PAD
    e.max_input_horizontal_pixels = 480 * b
    e.net_subsampling = SS
    e.max_line_width = 1e10
    e.characters = ('a', 'b')
    e.device = Dev()

    def run_ocr(batch):
        trs, lgs = [], []
        for row in batch:
            cols = row[0, :, 0].astype(int)
            nz = np.nonzero(cols)[0]
            ident = int(cols[nz[0]]) if len(nz) else 0
            trs.append(('Tr', ident - 1, int(len(nz))))
            fr = np.zeros((batch.shape[2] // SS, 3))
            for j in range(fr.shape[0]):
                cell = cols[SS * j: SS * j + SS]
                fr[j, 0] = cell[0]            # identity of the image under the first pixel of the cell (0 = padding)
                fr[j, 1] = SS * j
                fr[j, 2] = 1.0
            lgs.append(fr)
        return trs, lgs
    e.run_ocr = run_ocr
    return e


def _run(case):
    n, b = case['n'], int(_f(case['batch_size']))
    ws = [int(_f(w)) for w in case['widths']]
    lines = [np.full((H_PX, w, 3), i + 1, dtype=np.uint8) for i, w in enumerate(ws)]
    e = _engine(b)
    with contextlib.redirect_stdout(io.StringIO()):
        trs, lgs, coords = e.process_lines(lines, sparse_logits=False, tight_crop_logits=(case['flavour'] == 'tight'), no_logits=(case['flavour'] == 'nologits'))
    bad = []
    maxw = 480 * b
    for i, w in enumerate(ws):
        t = trs[i]
        if not (isinstance(t, tuple) and t[1] == i):
            bad.append('position %d holds the result of image %r' % (i, t))
            continue
        exp_vis = w if w + PAD <= maxw else maxw - PAD
        if t[2] != exp_vis:
            bad.append('line %d recognised on %d px instead of %d' % (i, t[2], exp_vis))
        if case['flavour'] == 'nologits':
            continue
        fr = lgs[i]
        if case['flavour'] == 'tight':
            win = fr
            if list(coords[i]) != [None, None]:
                bad.append('tight crop with coords')
        else:
            win = fr[coords[i][0]:coords[i][1]]
        if w + PAD <= maxw:
            if len(win) != w // SS or (len(win) and (not np.all(win[:, 0] == i + 1) or win[0, 1] != (PAD if case['flavour'] != 'tight' else win[0, 1]))):
                bad.append('window of line %d has %d frames (expected %d) or shows another image / padding' % (i, len(win), w // SS))
            if case['flavour'] != 'tight' and len(win) and win[0, 1] != PAD:
                bad.append('window of line %d does not start at the padding boundary' % i)
    return trs, coords, bad


def _sparse(case):
    W = [[Fraction(x) for x in row] for row in case['W']]
    lg = np.array([[math.log(x.numerator) - math.log(x.denominator) for x in row] for row in W]).reshape(len(W), case['C'])
    lg[lg == 0.0] = 1e-300
    e = _engine(16)
    e.line_padding_px = 0
    e.max_input_horizontal_pixels = 10000
    e.run_ocr = lambda batch: (['x'], [lg.copy()])
    with contextlib.redirect_stdout(io.StringIO()):
        tr, out, coords = e.process_lines([np.zeros((H_PX, max(lg.shape[0] * SS, 2), 3), dtype=np.uint8)], sparse_logits=True)
    dense = out[0].toarray()
    kept = [[bool(dense[t, c] != 0) for c in range(lg.shape[1])] for t in range(lg.shape[0])]
    bad = []
    for t, row in enumerate(W):
        tot = sum(row)
        for c, x in enumerate(row):
            post = x / tot
            if kept[t][c] and dense[t, c] != lg[t, c]:
                bad.append('stored value changed')
            if post >= Fraction(101, 1000000) and not kept[t][c]:
                bad.append('posterior %s dropped' % float(post))
            if post <= Fraction(99, 1000000) and kept[t][c]:
                bad.append('posterior %s kept' % float(post))
    return kept, bad


def replay(case):
    try:
        if case['mode'] == 'sparse':
            kept, bad = _sparse(case)
        else:
            trs, coords, bad = _run(dict(case, flavour=case.get('flavour', 'dense')))
    except Exception as e:
        return {'reproduced': True, 'detail': 'raised %r' % (e,)}
    return {'reproduced': bool(bad), 'detail': '; '.join(bad[:3]) or 'ok'}


def check_witness(w):
    if w['mode'] == 'sparse':
        kept, bad = _sparse(w)
        return {'match': not bad and kept == w['expect'], 'got': kept, 'bad': bad}
    trs, coords, bad = _run(dict(w, flavour=w.get('flavour', 'dense')))
    exp = w['expect']
    ok = not bad
    for t, e in zip(trs, exp['transcriptions']):
        ok = ok and e is not None and t[1] == e[0] and t[2] == int(_f(e[1]))
    if w.get('flavour') == 'dense' and w['mode'] == 'batch':
        for c, e in zip(coords, exp['coords']):
            ok = ok and [int(x) for x in c] == [int(_f(x)) for x in e]
    return {'match': bool(ok), 'bad': bad[:2], 'got': repr(trs)}

"""C08 replay against the real PageDecoder (run under /venv/bin/python): the arbitrary pre-state of the
model is realised by an actual history (a previously processed page) on the same decoder object."""
import numpy as np
import scipy.sparse

from pero_ocr.core.layout import PageLayout, RegionLayout, TextLine
from pero_ocr.document_ocr import page_parser as pp


class Bag:
    def __init__(self, t):
        self.t = t

    def best_hyp(self):
        return self.t


class LM:
    def initial_h_from_line(self, line):
        return 'init_from(%s)' % (line,)

    def add_line_end(self, h):
        return 'eol(%s)' % (h,)


class Dec:
    def __init__(self):
        self._lm = LM()

    def __call__(self, logits, return_h=False, init_h=None):
        i = logits.shape[0] - 2
        bag = Bag('text(l%d|%s)' % (i, init_h))
        if return_h:
            return bag, 'state(l%d|%s)' % (i, init_h)
        return bag


def _page(n, confident, missing, stored_nonempty, tag=''):
    pl = PageLayout(id='p' + tag, page_size=(10, 10))
    r = RegionLayout('r', np.zeros((4, 2)))
    for i in range(n):
        T = 2 + i
        if missing[i]:
            lg = None
        else:
            a = np.full((T, 3), 1.0)
            if confident[i]:
                a[:, 0] = 9.0
            lg = scipy.sparse.csc_matrix(a)
        r.lines.append(TextLine(id='l%d' % i, logits=lg, transcription=('stored%s_%d' % (tag, i)) if stored_nonempty[i] else ''))
    pl.regions = [r]
    return pl


def _texts(pl):
    return [l.transcription for l in pl.lines_iterator()]


def _run(case):
    n = case['n']
    thr = 0.5 if case['thr'] else None
    mk = lambda: pp.PageDecoder(Dec(), line_confidence_threshold=thr, carry_h_over=case['carry'])
    args = (n, case['confident'], case['missing'], case['stored_nonempty'])
    alone = _texts(mk().process_page(_page(*args)))
    dec = mk()
    if not case['pre_last_line_none']:
        # a history that leaves last_line non-None: a one-line page
        if case['pre_last_line_nonempty']:
            q = _page(1, [False], [False], [True], tag='Q')       # decoded -> non-empty text
        else:
            q = _page(1, [True], [False], [False], tag='Q') if case['thr'] else None   # confident line with stored ''
        if q is not None:
            dec.process_page(q)
    hist = _texts(dec.process_page(_page(*args)))
    out = {'alone': alone, 'with_history': hist}
    if case['mode'] == 'twice':
        out['second'] = _texts(dec.process_page(_page(*args)))
    return out


def _lm_eval():
    from pero_ocr.decoding import lm_wrapper as lw
    calls = []

    class _Model:
        vocab = {'a': 1, 'b': 2, '</s>': 0}

        def eval(self):
            calls.append('eval')
            return self

        def train(self, mode=True):
            calls.append('train(%r)' % mode)
            return self

        def to(self, device):
            calls.append('to')
            return self
    lw.LMWrapper(_Model(), ['a', 'b'], 'cpu')
    return calls


def replay(case):
    if case.get('mode') == 'lm_eval':
        calls = _lm_eval()
        return {'reproduced': 'eval' not in calls, 'detail': 'calls on the model during LMWrapper.__init__: %r' % (calls,)}
    if case.get('mode') == 'writes':
        return {'reproduced': True, 'detail': 'static finding: %s writes %s' % (case['class'], case['attrs'])}
    out = _run(case)
    bad = out['alone'] != out['with_history'] or ('second' in out and out['second'] != out['alone'])
    return {'reproduced': bool(bad), 'detail': repr(out)}


def check_witness(w):
    if w.get('mode') == 'writes':
        return {'match': True}
    if w.get('mode') == 'lm_eval':
        return {'match': _lm_eval() == w['expect']}
    out = _run(w)
    # structure of the expected terms: decoded lines are dec_text(...), confident ones keep the stored text
    ok = len(out['alone']) == len(w['expect'])
    for got, exp in zip(out['alone'], w['expect']):
        if exp.startswith('dec_text') != got.startswith('text('):
            ok = False
    return {'match': ok, 'got': out['alone']}

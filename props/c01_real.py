"""C01 replay against the real layout module with the real lxml."""
import re
from fractions import Fraction

import numpy as np

from pero_ocr.core import layout as L

LINE_OPTS = [
    (True, True, True, 'text'),
    (True, False, False, 'text'),
    (False, False, True, None),
    (True, True, False, ''),
    (False, True, True, 'text with <&> "quotes" ́ א\U0001f600'),
    (True, False, True, None),
]


def _f(x):
    return float(Fraction(x)) if isinstance(x, str) else float(x)


def _ver(v):
    return L.PAGEVersion.PAGE_2019_07_15 if v == '2019' else L.PAGEVersion.PAGE_2013_07_15


def _pts(vals, name, n):
    return np.array([[_f(vals['%s_%d_x' % (name, i)]), _f(vals['%s_%d_y' % (name, i)])] for i in range(n)])


def _build(case):
    v = case['vals']
    shape, npoly = case['shape'], case['npoly']
    pl = L.PageLayout(id='page é.jpg', page_size=(int(_f(v['page_h'])), int(_f(v['page_w']))))
    for r, n in enumerate(shape):
        reg = L.RegionLayout('r%d' % r, _pts(v, 'r%d' % r, npoly), region_type=('paragraph' if r % 2 == 0 else None))
        reg.transcription = [None, '', 'region text'][r % 3]
        for l in range(n):
            o = LINE_OPTS[case['opts']['%d_%d' % (r, l)]]
            reg.lines.append(L.TextLine(id='r%d-l%d' % (r, l), baseline=_pts(v, 'r%dl%db' % (r, l), 2), polygon=_pts(v, 'r%dl%dp' % (r, l), npoly),
                                        heights=[_f(v['r%dl%dh0' % (r, l)]), _f(v['r%dl%dh1' % (r, l)])] if o[0] else None,
                                        transcription=o[3],
                                        transcription_confidence=_f(v['r%dl%dconf' % (r, l)]) if (o[1] and o[3] is not None) else None,
                                        index=int(_f(v['r%dl%didx' % (r, l)])) if o[2] else None))
        pl.regions.append(reg)
    return pl


def _strip_ts(s):
    return re.sub(r'<(Created|LastChange)>[^<]*</(Created|LastChange)>', '', s)


def _roundtrip(case):
    L1 = _build(case)
    ver = _ver(case['ver'])
    s1 = L1.to_pagexml_string(version=ver)
    L2 = L.PageLayout()
    L2.from_pagexml_string(s1)
    s2 = L2.to_pagexml_string(version=ver)
    L3 = L.PageLayout()
    L3.from_pagexml_string(s2)
    s3 = L3.to_pagexml_string(version=ver)
    bad = []
    if (L1.id, tuple(L1.page_size)) != (L2.id, tuple(L2.page_size)):
        bad.append('page id/size %r -> %r' % ((L1.id, L1.page_size), (L2.id, L2.page_size)))
    if len(L1.regions) != len(L2.regions):
        bad.append('region count')
    for a, b in zip(L1.regions, L2.regions):
        if (a.id, a.region_type, a.transcription) != (b.id, b.region_type, b.transcription):
            bad.append('region %s: id/type/text %r -> %r' % (a.id, (a.id, a.region_type, a.transcription), (b.id, b.region_type, b.transcription)))
        if not np.array_equal(np.round(a.polygon).astype(int), np.asarray(b.polygon)):
            bad.append('region %s polygon %r -> %r' % (a.id, a.polygon.tolist(), np.asarray(b.polygon).tolist()))
        if len(a.lines) != len(b.lines):
            bad.append('line count of %s' % a.id)
        for i, (x, y) in enumerate(zip(a.lines, b.lines)):
            if x.id != y.id or x.transcription != y.transcription:
                bad.append('line %s: id/text %r -> %r' % (x.id, x.transcription, y.transcription))
            if y.index != (x.index if x.index is not None else i):
                bad.append('line %s index %r -> %r' % (x.id, x.index, y.index))
            if not np.array_equal(np.round(x.baseline).astype(int), np.asarray(y.baseline)) or not np.array_equal(np.round(x.polygon).astype(int), np.asarray(y.polygon)):
                bad.append('line %s geometry changed beyond rounding' % x.id)
            if x.heights is not None and (y.heights is None or any(abs(p - q) > 0.05 + 1e-9 for p, q in zip(x.heights, y.heights))):
                bad.append('line %s heights %r -> %r' % (x.id, x.heights, y.heights))
            if x.transcription_confidence is None:
                if y.transcription_confidence is not None:
                    bad.append('line %s confidence appeared' % x.id)
            elif y.transcription_confidence is None or abs(x.transcription_confidence - y.transcription_confidence) > 0.0005 + 1e-9:
                bad.append('line %s confidence %r -> %r' % (x.id, x.transcription_confidence, y.transcription_confidence))
    if _strip_ts(s2) != _strip_ts(s3):
        bad.append('not a fixpoint: export(L2) != export(import(export(L2)))')
    return L2, bad


def _order(case):
    n, listed = case['n'], case['listed']
    idx = [int(_f(x)) for x in case['index']]
    pl = L.PageLayout(id='p', page_size=(10, 10))
    for i in range(n):
        pl.regions.append(L.RegionLayout('r%d' % i, np.array([[0, 0], [1, 0], [1, 1]])))
    pl.reading_order = {('r%d' % i): idx[i] for i in range(n) if listed[i]}
    s1 = pl.to_pagexml_string(version=_ver(case['ver']))
    held = [r.id for r in pl.regions]
    written = re.findall(r'<TextRegion id="([^"]*)"', s1)
    L2 = L.PageLayout()
    from io import BytesIO
    L2 = L.PageLayout(file=BytesIO(s1.encode('utf-8')))
    loaded = [r.id for r in L2.regions]
    exp = ['r%d' % i for i in sorted(range(n), key=lambda i: (idx[i] if listed[i] else float('inf'), i))]
    bad = []
    for name, seq in (('held', held), ('written', written), ('re-loaded', loaded)):
        if seq != exp:
            bad.append('%s order %r, reading order demands %r' % (name, seq, exp))
    if {k: v for k, v in L2.reading_order.items()} != {('r%d' % i): idx[i] for i in range(n) if listed[i]}:
        bad.append('reading order map %r' % (L2.reading_order,))
    return written, loaded, bad


def replay(case):
    try:
        if case['mode'] == 'order':
            w, l, bad = _order(case)
        else:
            L2, bad = _roundtrip(case)
    except Exception as e:
        return {'reproduced': True, 'detail': 'raised %r' % (e,)}
    return {'reproduced': bool(bad), 'detail': '; '.join(bad[:3]) or 'ok'}


def check_witness(w):
    if w['mode'] == 'order':
        written, loaded, bad = _order(w)
        return {'match': not bad and written == w['expect']['written'] and loaded == w['expect']['loaded'], 'bad': bad}
    L2, bad = _roundtrip(w)
    exp = w['expect']
    ok = not bad and [int(_f(x)) for x in exp['page']] == list(L2.page_size)
    for reg, er in zip(L2.regions, exp['regions']):
        ok = ok and reg.id == er['id'] and [int(_f(x)) for x in er['poly']] == np.asarray(reg.polygon).ravel().tolist()
        for l, el in zip(reg.lines, er['lines']):
            ok = ok and l.id == el['id'] and l.index == int(_f(el['index'])) and l.transcription == el['text'] \
                and [int(_f(x)) for x in el['base']] == np.asarray(l.baseline).ravel().tolist()
            if el['conf'] is not None:
                ok = ok and abs(l.transcription_confidence - _f(el['conf'])) < 1e-9
    return {'match': bool(ok), 'bad': bad}

"""C13 replay against the real pero_ocr modules (run under /venv/bin/python)."""
from fractions import Fraction

from pero_ocr import sequence_alignment as sa
from pero_ocr import error_summary as es


def ref_dp(src, tgt, sub=1, ins=1, dele=1):
    n, m = len(src), len(tgt)
    D = [[0] * (m + 1) for _ in range(n + 1)]
    for j in range(m + 1):
        D[0][j] = j * ins
    for i in range(1, n + 1):
        D[i][0] = i * dele
        for j in range(1, m + 1):
            D[i][j] = min(D[i - 1][j] + dele, D[i][j - 1] + ins, D[i - 1][j - 1] + (sub if src[i - 1] != tgt[j - 1] else 0))
    return D[n][m]


def ref_sub(a, b):
    long_, short = (a, b) if len(b) <= len(a) else (b, a)
    return min(ref_dp(long_[i:j], short) for i in range(len(long_) + 1) for j in range(i, len(long_) + 1))


def _norm(x):
    if x is None:
        return None
    return int(x)


def _call(case):
    fn = case['fn']
    s, t = case.get('source'), case.get('target')
    kw = {}
    if 'sub' in case:
        kw = dict(sub_cost=case['sub'], ins_cost=case['ins'], del_cost=case['dele'])
    if fn == 'dist':
        return sa.levenshtein_distance(s, t, **kw)
    if fn == 'align':
        return sa.levenshtein_alignment(s, t, **kw)
    if fn == 'path':
        return sa.levenshtein_alignment_path(s, t, **kw)
    if fn == 'sdist':
        return sa.levenshtein_distance_substring(s, t)
    if fn == 'salign':
        return sa.levenshtein_alignment_substring(s, t)
    raise ValueError(fn)


def _pairs_cost(pairs, sub, ins, dele):
    c = 0
    for a, b in pairs:
        if a is None:
            c += ins
        elif b is None:
            c += dele
        elif a != b:
            c += sub
    return c


def _mixed(case):
    n = case['n']
    kinds = case['kinds']
    mk = lambda k, c: ('s%d' % int(c)) if k == 's' else int(c)
    s = [mk(kinds[i], c) for i, c in enumerate(case['source'])]
    t = [mk(kinds[n + j], c) for j, c in enumerate(case['target'])]
    return s, t


def _violates(case):
    """evaluate the property on the real code -> (violated?, detail)"""
    fn = case['fn']
    if fn == 'mixed':
        s, t = _mixed(case)
        d = sa.levenshtein_distance(s, t)
        ref = ref_dp(s, t)
        al = sa.levenshtein_alignment(s, t)
        proj = [b for a, b in al if b is not None]
        if d != ref:
            return True, 'levenshtein_distance(%r, %r) = %r, true minimum %r' % (s, t, d, ref)
        if [type(x) for x in proj] != [type(x) for x in t] or list(proj) != t:
            return True, 'alignment of %r, %r gives target projection %r' % (s, t, proj)
        return False, 'ok'

    if fn == 'summary':
        r = es.ErrorsSummary.from_lists(case['ref'], case['hyp'])
        d = ref_dp(case['ref'], case['hyp'])
        tot = r.nb_subs + r.nb_inss + r.nb_dels
        bad = not (tot == r.nb_errors == d) or r.ref_len != len(case['ref'])
        return bad, 'subs+inss+dels=%s nb_errors=%s distance=%s' % (tot, r.nb_errors, d)
    if fn == 'aggregate':
        items = _mk_summaries(case)
        r = es.ErrorsSummary.aggregate(items)
        bad = False
        for f in ('nb_lines_summarized', 'ref_len', 'nb_errors', 'nb_subs', 'nb_inss', 'nb_dels'):
            if getattr(r, f) != sum(s[f] for s in case['summaries']):
                bad = True
        for f in case['boundary'][0] if case['boundary'] else []:
            if getattr(r.ending_errors, f) != sum(b[f] for b in case['boundary']):
                bad = True
        return bad, 'aggregate fields %s' % {f: getattr(r, f) for f in ('nb_errors', 'nb_subs', 'nb_inss', 'nb_dels')}
    s, t = case['source'], case['target']
    try:
        res = _call(case)
    except Exception as e:
        return True, 'raised %r' % (e,)
    if fn == 'dist':
        d = ref_dp(s, t, case['sub'], case['ins'], case['dele'])
        return (res != d), 'got %r, true minimum %r' % (res, d)
    if fn == 'sdist':
        d = ref_sub(s, t)
        return (res != d), 'got %r, true substring minimum %r' % (res, d)
    sub, ins, dele = case.get('sub', 1), case.get('ins', 1), case.get('dele', 1)
    if fn == 'path':
        pairs = []
        si = ti = 0
        try:
            for w in res:
                if w == 0:
                    pairs.append((s[si], t[ti])); si += 1; ti += 1
                elif w > 0:
                    pairs.append((s[si], None)); si += 1
                else:
                    pairs.append((None, t[ti])); ti += 1
        except IndexError:
            return True, 'path overruns inputs: %r' % (res,)
        if si != len(s) or ti != len(t):
            return True, 'path does not consume inputs: %r' % (res,)
    else:
        pairs = [(_norm(a), _norm(b)) for a, b in res]
    if any(a is None and b is None for a, b in pairs):
        return True, '(None, None) pair'
    if [a for a, b in pairs if a is not None] != list(s) or [b for a, b in pairs if b is not None] != list(t):
        return True, 'projection mismatch: %r' % (pairs,)
    if fn == 'salign':
        swapped = len(t) > len(s)
        free = (lambda p: p[0] is None and p[1] is not None) if swapped else (lambda p: p[1] is None and p[0] is not None)
        cp = list(pairs)
        while cp and free(cp[0]):
            cp.pop(0)
        while cp and free(cp[-1]):
            cp.pop()
        c = _pairs_cost(cp, 1, 1, 1)
        d = ref_sub(s, t)
        return (c != d), 'alignment core cost %r, true substring minimum %r, alignment %r' % (c, d, pairs)
    c = _pairs_cost(pairs, sub, ins, dele)
    d = ref_dp(s, t, sub, ins, dele)
    return (c != d), 'alignment cost %r, true minimum %r' % (c, d)


def _mk_summaries(case):
    items = []
    for v, b in zip(case['summaries'], case['boundary']):
        be = es.BoundaryErrorsSummary.empty_summary()
        for f, x in b.items():
            setattr(be, f, x)
        items.append(es.ErrorsSummary(v['nb_lines_summarized'], v['ref_len'], v['nb_errors'], v['nb_subs'],
                                      v['nb_inss'], v['nb_dels'], {}, be))
    return items


def replay(case):
    bad, detail = _violates(case)
    return {'reproduced': bool(bad), 'detail': detail}


def check_witness(w):
    """the symbolic engine predicted `expect` for these inputs: compare with the real code"""
    fn = w['fn']
    if fn == 'mixed':
        s, t = _mixed(w)
        return {'match': int(sa.levenshtein_distance(s, t)) == int(w['expect']), 'got': int(sa.levenshtein_distance(s, t))}
    if fn == 'summary':
        r = es.ErrorsSummary.from_lists(w['ref'], w['hyp'])
        got = dict(nb_errors=int(r.nb_errors), nb_subs=int(r.nb_subs), nb_inss=int(r.nb_inss), nb_dels=int(r.nb_dels))
        return {'match': got == w['expect'], 'got': got}
    if fn == 'aggregate':
        r = es.ErrorsSummary.aggregate(_mk_summaries(w))
        got = {f: int(getattr(r, f)) for f in w['expect']}
        gotb = {f: int(getattr(r.ending_errors, f)) for f in w['expect_boundary']}
        return {'match': got == w['expect'] and gotb == w['expect_boundary'], 'got': [got, gotb]}
    res = _call(w)
    if fn in ('dist', 'sdist'):
        return {'match': float(res) == float(w['expect']), 'got': float(res)}
    if fn == 'path':
        got = [float(x) for x in res]
        return {'match': got == [float(x) for x in w['expect']], 'got': got}
    got = [[_norm(a), _norm(b)] for a, b in res]
    return {'match': got == w['expect'], 'got': got}

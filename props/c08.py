"""C08 -- a page's result does not depend on processing history or schedule.

One inductive step from an ARBITRARY pre-state instead of enumerating
histories: a PageDecoder is created, its mutable attributes (last_h,
last_line, counters) are overwritten with arbitrary symbolic values, and the
real process_page / decode_line run on a page; the same page runs on a fresh
decoder.  Every reachable state (any sequence of earlier pages, a resumed run,
a worker process with some history) is an instance of "arbitrary", so equality
of the two results for all pre-states covers histories of any length.

The beam decoder, the language model and the confidence test are
uninterpreted functions (EUF): deterministic and stateless, which is what
C02/C03 and the torch LM provide.  Transcriptions are terms of an
uninterpreted sort; z3 decides their equality under the path condition.
"""
import z3

from symx import core
from symx.core import S, SB
from symx.harness import Harness, mv

ID = 'C08'

META = {
    'functions': [
        'pero_ocr/document_ocr/page_parser.py:PageDecoder.__init__',
        'pero_ocr/document_ocr/page_parser.py:PageDecoder.process_page',
        'pero_ocr/document_ocr/page_parser.py:PageDecoder.decode_line',
        'pero_ocr/document_ocr/page_parser.py:PageParser.process_page',
        'pero_ocr/document_ocr/page_parser.py:PageParser.update_confidences',
        'pero_ocr/document_ocr/page_parser.py:PageParser.filter_confident_lines',
    ],
    'bounds': {
        'quick': 'pages of 1..3 lines; pre-state: last_h None or any state, last_line None / any string (emptiness symbolic), '
                 'counters any integers; carry_h_over on/off; confidence threshold present/absent, the confident-line test '
                 'outcome symbolic per line; stored transcriptions any strings (emptiness symbolic); lines with missing logits',
        'thorough': 'pages of 1..4 lines; plus two consecutive pages on one object vs. each alone',
    },
    'assumptions': [
        'the beam decoder, LM.initial_h_from_line, LM.add_line_end and best_hyp are deterministic functions of their arguments (uninterpreted)',
        'the confident-line test is a deterministic predicate of (logits, threshold) (uninterpreted; its arithmetic is C16)',
        'a transcription is an opaque string whose only observable besides identity is its emptiness',
    ],
    'outside': ['GPU nondeterminism; random numbers inside layout helpers; real multiprocessing (a worker is an object with some history)',
                'pages with more lines than the bound (the step is per page; lines only chain state forward)'],
    'stubs': ['decoder / LM / line_confident_enough / prepare_dense_logits -> uninterpreted functions over an uninterpreted sort', 'time.time -> constant'],
}

Tok = z3.DeclareSort('Tok')
NONE = z3.Const('NONE', Tok)
F_txt = z3.Function('dec_text', Tok, Tok, Tok)       # (logits, init state) -> best hypothesis
F_h = z3.Function('dec_state', Tok, Tok, Tok)        # (logits, init state) -> LM state after the line
F_init = z3.Function('lm_initial_h_from_line', Tok, Tok)
F_eol = z3.Function('lm_add_line_end', Tok, Tok)
F_nonempty = z3.Function('nonempty', Tok, z3.BoolSort())
F_dense = z3.Function('dense_logits', Tok, Tok)


class TV:
    """value of the uninterpreted sort; kind 's' (string: truthiness = non-empty, symbolic) or 'h' (LM state: truthy)"""

    def __init__(self, e, kind):
        self.e = e
        self.kind = kind

    def __bool__(self):
        if self.kind == 'h':
            return True
        return core.branch(F_nonempty(self.e))

    def __eq__(self, o):
        if isinstance(o, TV):
            return core.branch(self.e == o.e)
        return False

    def __hash__(self):
        return 3

    def __repr__(self):
        return 'TV(%s)' % self.e


def tok(x):
    if x is None:
        return NONE
    return x.e


class Bag:
    def __init__(self, e):
        self.e = e

    def best_hyp(self):
        return TV(self.e, 's')


class StubLM:
    def initial_h_from_line(self, line):
        return TV(F_init(tok(line)), 'h')

    def add_line_end(self, h):
        return TV(F_eol(tok(h)), 'h')


class StubDecoder:
    def __init__(self):
        self._lm = StubLM()
        self.calls = []

    def __call__(self, logits, return_h=False, init_h=None):
        self.calls.append((logits, init_h))
        bag = Bag(F_txt(tok(logits), tok(init_h)))
        if return_h:
            return bag, TV(F_h(tok(logits), tok(init_h)), 'h')
        return bag


def tasks(tier):
    ts = []
    nmax = 3 if tier == 'quick' else 4
    for n in range(1, nmax + 1):
        for carry in (False, True):
            for thr in (False, True):
                ts.append({'mode': 'step', 'n': n, 'carry': carry, 'thr': thr})
    ts.append({'mode': 'twice', 'n': 2, 'carry': True, 'thr': True})
    ts.append({'mode': 'writes'})
    ts.append({'mode': 'lm_eval'})
    return ts


class _Line:
    def __init__(self, i, has_logits):
        self.id = 'l%d' % i
        self.logits = TV(z3.Const('logits_%d' % i, Tok), 'h') if has_logits else None
        self.transcription = TV(z3.Const('stored_%d' % i, Tok), 's')
        self.transcription_confidence = None

    def get_full_logprobs(self):
        return TV(F_dense(self.logits.e), 'h')


class _Page:
    def __init__(self, lines):
        self.id = 'page'
        self._lines = lines

    def lines_iterator(self):
        return iter(self._lines)


def _mk_page(n, missing):
    return _Page([_Line(i, not missing[i]) for i in range(n)])


def run_task(task, patches=None):
    H = Harness(patches)
    pp = H.load('pero_ocr.document_ocr.page_parser')
    if task['mode'] == 'writes':
        return _run_writes(H, pp)
    if task['mode'] == 'lm_eval':
        return _run_lm_eval(H)
    n, carry, thr = task['n'], task['carry'], task['thr']
    conf = [z3.Bool('confident_%d' % i) for i in range(n)]
    missing = [z3.Bool('missing_logits_%d' % i) for i in range(n)]
    pre_h_none = z3.Bool('pre_last_h_is_none')
    pre_line_none = z3.Bool('pre_last_line_is_none')
    pre_h = z3.Const('pre_last_h', Tok)
    pre_line = z3.Const('pre_last_line', Tok)
    K = 'C08:%s:' % task['mode']

    def lce(logits, threshold):
        # uninterpreted predicate of the line's logits (one fresh Bool per line)
        for i in range(n):
            if logits.e.eq(F_dense(z3.Const('logits_%d' % i, Tok))):
                return core.branch(conf[i])
        raise AssertionError('unknown logits')
    pp.line_confident_enough = lce

    def case(m_, **kw):
        c = {'mode': task['mode'], 'n': n, 'carry': carry, 'thr': thr,
             'confident': [bool(mv(m_, SB(x))) for x in conf], 'missing': [bool(mv(m_, SB(x))) for x in missing],
             'pre_last_h_none': bool(mv(m_, SB(pre_h_none))), 'pre_last_line_none': bool(mv(m_, SB(pre_line_none))),
             'pre_last_line_nonempty': bool(mv(m_, SB(F_nonempty(pre_line)))),
             'stored_nonempty': [bool(mv(m_, SB(F_nonempty(z3.Const('stored_%d' % i, Tok))))) for i in range(n)]}
        c.update(kw)
        return c

    def new_decoder():
        return pp.PageDecoder(StubDecoder(), line_confidence_threshold=(0.5 if thr else None), carry_h_over=carry)

    def body():
        miss = [core.branch(m) for m in missing]
        # run B: fresh object
        fresh = new_decoder()
        pb = _mk_page(n, miss)
        fresh.process_page(pb)
        # run A: arbitrary pre-state
        dec = new_decoder()
        dec.last_h = None if core.branch(pre_h_none) else TV(pre_h, 'h')
        dec.last_line = None if core.branch(pre_line_none) else TV(pre_line, 's')
        dec.lines_examined = S(z3.Int('pre_examined'))
        dec.lines_decoded = S(z3.Int('pre_decoded'))
        dec.seconds_decoding = S(z3.Real('pre_seconds'))
        pa = _mk_page(n, miss)
        dec.process_page(pa)
        out = [pa, pb]
        if task['mode'] == 'twice':
            pc_ = _mk_page(n, miss)
            dec.process_page(pc_)
            out.append(pc_)
        return out

    for p, res, exc in H.explore(body):
        if exc is not None:
            H.fail(K + 'exception:' + type(exc).__name__, 'raised %r' % (exc,), lambda m_: case(m_))
            continue
        pa, pb = res[0], res[1]
        for i, (la, lb) in enumerate(zip(pa._lines, pb._lines)):
            ea, eb = tok(la.transcription), tok(lb.transcription)
            H.claim(ea == eb, K + 'history-dependent',
                    'the transcription of line %d depends on what the decoder processed before this page' % i,
                    lambda m_: case(m_, line=i, with_history=str(ea), alone=str(eb)))
        if task['mode'] == 'twice':
            for i, (la, lc) in enumerate(zip(pa._lines, res[2]._lines)):
                H.claim(tok(la.transcription) == tok(lc.transcription), K + 'second-pass-differs',
                        'processing the same page twice gives different transcriptions for line %d' % i,
                        lambda m_: case(m_, line=i))
        H.witness(lambda m_: case(m_, expect=[str(tok(l.transcription)) for l in pb._lines]))
    return H.result()


def _run_lm_eval(H):
    """Discharges a stub assumption: the uninterpreted-function model of the LM assumes a deterministic LM.  A torch
    LM is deterministic only in inference mode, so the real LMWrapper.__init__ is executed on a recording stand-in
    and must have put the model into eval() mode (dropout off) before any use."""
    lw = H.load('pero_ocr.decoding.lm_wrapper')
    calls = []

    class _Model:
        vocab = {'a': 1, 'b': 2, '</s>': 0}

        def eval(self):
            calls.append('eval')
            return self

        def train(self, mode=True):
            calls.append('train(%r)' % mode)
            return self

        def to(self, device):
            calls.append('to')
            return self
    H.paths += 1
    H.obligations += 1
    m = _Model()
    w = lw.LMWrapper(m, ['a', 'b'], 'cpu')
    inner = w._lm
    if 'eval' not in calls or 'train(True)' in calls[calls.index('eval'):] if 'eval' in calls else True:
        H.violations.append({'key': 'C08:lm_eval:not-in-eval-mode',
                             'what': 'LMWrapper does not switch the language model to inference mode: stochastic layers make decoding non-deterministic',
                             'case': {'mode': 'lm_eval', 'calls': list(calls)}})
    H.witnesses.append({'mode': 'lm_eval', 'expect': list(calls)})
    return H.result()


def _run_writes(H, pp):
    """Static part: which stage classes reachable from PageParser.process_page write attributes of `self`
    inside process_page (or methods it calls)?  Only those can carry state from page to page.  The solver
    obligation above is raised for PageDecoder; any other writer is reported."""
    import ast
    import os
    from symx import loader as _l
    path = os.path.join(_l.REPO, 'pero_ocr/document_ocr/page_parser.py')
    src = H.loader.source('pero_ocr.document_ocr.page_parser')[0]
    tree = ast.parse(src)
    writers = {}
    for cls in [n for n in tree.body if isinstance(n, ast.ClassDef)]:
        meths = {f.name: f for f in cls.body if isinstance(f, ast.FunctionDef)}
        if 'process_page' not in meths:
            continue
        # methods reachable from process_page through self.<m>(...)
        reach, todo = set(), ['process_page']
        while todo:
            m = todo.pop()
            if m in reach or m not in meths:
                continue
            reach.add(m)
            for node in ast.walk(meths[m]):
                if isinstance(node, ast.Call) and isinstance(node.func, ast.Attribute) and isinstance(node.func.value, ast.Name) \
                        and node.func.value.id == 'self':
                    todo.append(node.func.attr)
        w = set()
        for m in reach:
            for node in ast.walk(meths[m]):
                targets = []
                if isinstance(node, ast.Assign):
                    targets = node.targets
                elif isinstance(node, (ast.AugAssign, ast.AnnAssign)):
                    targets = [node.target]
                for t in targets:
                    for sub in ast.walk(t):
                        if isinstance(sub, ast.Attribute) and isinstance(sub.value, ast.Name) and sub.value.id == 'self':
                            w.add(sub.attr)
        if w:
            writers[cls.name] = sorted(w)
    H.paths += 1
    H.obligations += 1
    allowed = {'PageDecoder': {'last_h', 'last_line', 'lines_examined', 'lines_decoded', 'seconds_decoding'}}
    for cls, attrs in writers.items():
        extra = set(attrs) - allowed.get(cls, set())
        if extra:
            H.violations.append({'key': 'C08:writes:' + cls, 'what': 'stage class %s writes %s during process_page: page-to-page state '
                                 'that the inductive step does not cover' % (cls, sorted(extra)),
                                 'case': {'mode': 'writes', 'class': cls, 'attrs': sorted(extra)}})
    H.witnesses.append({'mode': 'writes', 'expect': {k: v for k, v in writers.items()}})
    return H.result()


_F = 'pero_ocr/document_ocr/page_parser.py'


def canaries(tier):
    q = [t for t in tasks('quick') if t['mode'] == 'step' and t['n'] <= 2]
    return [
        {'name': 'process_page does not reset last_line (the defect repaired by the fix: commit)',
         'patches': [(_F, '        self.last_h = None\n        self.last_line = None\n        for line in page_layout.lines_iterator():', '        self.last_h = None\n        for line in page_layout.lines_iterator():')],
         'tasks': q},
        {'name': 'process_page resets nothing',
         'patches': [(_F, '        self.last_h = None\n        self.last_line = None\n        for line in page_layout.lines_iterator():', '        for line in page_layout.lines_iterator():')],
         'tasks': q},
        {'name': 'confident line does not clear last_h (within a page only: negative control for the history clause)',
         'patches': [(_F, '                self.last_h = None\n                self.last_line = line.transcription', '                self.last_line = line.transcription')],
         'tasks': q, 'expect': False},
    ]

"""C18 -- layout decoding returns coordinates in the original, un-rotated image (the coordinate clause only).

Symbolic execution of LayoutEngine.rotate_layout and LayoutEngine.detect (cnn_layout_engine.py, with the network, the
map parser and the clustering replaced by stubs that return symbolic points in the ROTATED image) and of
layout_helpers.order_lines_vertical, for a page of symbolic (non-square) size and all four orientations.  The first
sentence of the property (one line per ridge of the detection maps) is NOT decided here: see DESIGN.md 7.6.
"""
import itertools
import types
import z3

from symx import core
from symx.core import S, SB
from symx import symnp
from symx.harness import Harness, mv

ID = 'C18'

META = {
    'functions': [
        'pero_ocr/layout_engines/cnn_layout_engine.py:LayoutEngine.rotate_layout',
        'pero_ocr/layout_engines/cnn_layout_engine.py:LayoutEngine.detect',
        'pero_ocr/layout_engines/layout_helpers.py:order_lines_vertical',
    ],
    'bounds': {
        'quick': 'page height and width symbolic integers in [2, 10000] (square and non-square), rotations 0..3, 1..2 baselines / outlines / regions of 2 symbolic points each',
        'thorough': '1..3 lines of 3 points',
    },
    'assumptions': [
        'np.rot90(image, k) index map as documented: k=1 sends original pixel (row y, col x) to (row W-1-x, col y), k=2 to (H-1-y, W-1-x), k=3 to (x, H-1-y); rotated shapes accordingly',
        'the jittered sort keys of order_lines_vertical are pairwise distinct (continuous random jitter: equal keys have probability 0)',
        'only the coordinate clause (second sentence) of the property is claimed',
    ],
    'outside': ['LayoutEngine.parse / make_clusters / clustered_lines_to_polygons (scipy.ndimage over whole maps): the first sentence of the property'],
    'stubs': ['parsenet, parse, make_clusters, clustered_lines_to_polygons -> symbolic points in the rotated frame', 'np.rot90 -> shape map', 'random.uniform -> symbolic value in (0.001, 0.999)'],
}


def tasks(tier):
    ts = []
    nl, npt = (2, 2) if tier == 'quick' else (3, 3)
    for rot in range(4):
        for n in range(1, nl + 1):
            ts.append({'mode': 'detect', 'rot': rot, 'n': n, 'npt': npt})
    ts.append({'mode': 'order', 'n': nl + 1})
    return ts


def to_rotated(x, y, H, W, rot):
    """coordinates (col, row) of the original pixel centre (x, y) in np.rot90(image, k=rot)"""
    if rot == 0:
        return x, y
    if rot == 1:
        return y, W - 1 - x
    if rot == 2:
        return W - 1 - x, H - 1 - y
    return H - 1 - y, x


def run_task(task, patches=None):
    H_ = Harness(patches, extra_builtins={'print': lambda *a, **k: None})
    hl = H_.load('pero_ocr.layout_engines.layout_helpers')
    if task['mode'] == 'order':
        return _run_order(H_, hl, task)
    eng = H_.load('pero_ocr.layout_engines.cnn_layout_engine')
    rot, n, npt = task['rot'], task['n'], task['npt']
    K = 'C18:detect:'
    Hh, Ww = z3.Int('page_h'), z3.Int('page_w')
    names = ('base', 'outline', 'region')
    P = {nm: [[(z3.Real('%s_%d_%d_x' % (nm, i, k)), z3.Real('%s_%d_%d_y' % (nm, i, k))) for k in range(npt)] for i in range(n)] for nm in names}
    jit = [z3.Real('jitter_%d' % i) for i in range(n)]

    def case(m_, **kw):
        c = {'mode': 'detect', 'rot': rot, 'n': n, 'npt': npt, 'page': [mv(m_, S(Hh)), mv(m_, S(Ww))],
             'points': {nm: [[[mv(m_, S(x)), mv(m_, S(y))] for x, y in pts] for pts in P[nm]] for nm in names}, 'jitter': [mv(m_, S(j)) for j in jit]}
        c.update(kw)
        return c

    class Image:
        def __init__(self, shape):
            self.shape = shape

    class NpProxy:
        def __getattr__(self, name):
            return getattr(symnp, name)

        def rot90(self, image, k=1):
            h, w = image.shape[0], image.shape[1]
            return Image((w, h, 3) if k % 2 else (h, w, 3))

    def body():
        core.assume(z3.And(Hh >= 2, Hh <= 10000, Ww >= 2, Ww <= 10000))
        eng.np = NpProxy()
        jl = list(jit)

        def uniform(a, b):
            v = jl.pop(0)
            core.assume(z3.And(v > z3.RealVal(a), v < z3.RealVal(b)))
            return S(v)
        hl.random = types.SimpleNamespace(uniform=uniform)
        rotated = {}
        for nm in names:
            rotated[nm] = []
            for pts in P[nm]:
                arr = []
                for x, y in pts:
                    core.assume(z3.And(x >= 0, x <= Ww - 1, y >= 0, y <= Hh - 1))
                    xr, yr = to_rotated(x, y, Hh, Ww, rot)
                    arr.extend([S(xr), S(yr)])
                rotated[nm].append(symnp.A(arr, (npt, 2)))
        # distinct sort keys (first baseline point's y in the rotated frame + jitter)
        keys = [core.lift(rotated['base'][i][0, 1]) + jit[i] for i in range(n)]
        for a, b in itertools.combinations(keys, 2):
            core.assume(a != b)
        e = object.__new__(eng.LayoutEngine)
        e.parsenet = types.SimpleNamespace(get_maps_with_optimal_resolution=lambda image: (symnp.zeros((1, 1, 5)), 1))
        seen = {}

        def parse(maps, ds):
            return list(rotated['base']), [['h_up_%d' % i, 'h_down_%d' % i] for i in range(n)], list(rotated['outline'])
        e.parse = parse
        e.make_clusters = lambda b, h, t, m, ds: 'clusters'
        e.clustered_lines_to_polygons = lambda t_list, clusters: list(rotated['region'])
        p_list, b_list, h_list, t_list = e.detect(Image((S(Hh), S(Ww), 3)), rot=rot)
        return p_list, b_list, h_list, t_list

    for p, res, exc in H_.explore(body):
        if exc is not None:
            H_.fail(K + 'exception:' + type(exc).__name__, 'raised %r' % (exc,), lambda m_: case(m_))
            continue
        p_list, b_list, h_list, t_list = res
        if not (len(b_list) == len(h_list) == len(t_list) == n and len(p_list) == n):
            H_.fail(K + 'lengths', 'lists returned by detect have different lengths', lambda m_: case(m_))
            continue
        # b_list / h_list / t_list stay aligned: the line whose heights are h_up_i carries baseline i and outline i
        for j in range(n):
            i = int(h_list[j][0].split('_')[-1])
            for nm, got in (('base', b_list[j]), ('outline', t_list[j])):
                conj = []
                for k in range(npt):
                    x, y = P[nm][i][k]
                    gx, gy = core.lift(got[k, 0]), core.lift(got[k, 1])
                    conj.append(z3.And(gx - x <= 1, x - gx <= 1, gy - y <= 1, y - gy <= 1))
                H_.claim(z3.And(*conj), K + 'not-original-coordinates:' + nm,
                         'with rotation %d a returned %s point is more than one pixel away from its position in the original image (or lists are misaligned)' % (rot, nm),
                         lambda m_: case(m_, which=nm, line=i, got=[[mv(m_, got[k, 0]), mv(m_, got[k, 1])] for k in range(npt)]))
        for i in range(n):
            got = p_list[i]
            conj = []
            for k in range(npt):
                x, y = P['region'][i][k]
                gx, gy = core.lift(got[k, 0]), core.lift(got[k, 1])
                conj.append(z3.And(gx - x <= 1, x - gx <= 1, gy - y <= 1, y - gy <= 1))
            H_.claim(z3.And(*conj), K + 'not-original-coordinates:region',
                     'with rotation %d a returned region point is more than one pixel away from its position in the original image' % rot,
                     lambda m_: case(m_, which='region', line=i))
        # witness models with integer pixel positions (the replay locates marker pixels in a really rotated image)
        ints = [v == z3.ToReal(z3.ToInt(v)) for nm in names for pts in P[nm] for xy in pts for v in xy]
        H_.witness(lambda m_: case(m_, expect={'order': [h[0] for h in h_list],
                                               'base': [[[mv(m_, b[k, 0]), mv(m_, b[k, 1])] for k in range(npt)] for b in b_list]}), extra=ints)
    return H_.result()


def _run_order(H_, hl, task):
    n = task['n']
    K = 'C18:order:'
    ys = [z3.Real('y_%d' % i) for i in range(n)]
    jit = [z3.Real('jitter_%d' % i) for i in range(n)]

    def case(m_, **kw):
        c = {'mode': 'order', 'n': n, 'y': [mv(m_, S(v)) for v in ys], 'jitter': [mv(m_, S(v)) for v in jit]}
        c.update(kw)
        return c

    def body():
        jl = list(jit)

        def uniform(a, b):
            v = jl.pop(0)
            core.assume(z3.And(v > z3.RealVal(a), v < z3.RealVal(b)))
            return S(v)
        hl.random = types.SimpleNamespace(uniform=uniform)
        for a, b in itertools.combinations(range(n), 2):
            core.assume(ys[a] + jit[a] != ys[b] + jit[b])
        bl = [symnp.A([0, S(ys[i]), 10, S(ys[i])], (2, 2)) for i in range(n)]
        return hl.order_lines_vertical(bl, ['h%d' % i for i in range(n)], ['t%d' % i for i in range(n)]), bl

    for p, res, exc in H_.explore(body):
        if exc is not None:
            H_.fail(K + 'exception:' + type(exc).__name__, 'raised %r' % (exc,), lambda m_: case(m_))
            continue
        (b, h, t), bl = res
        idx = [int(x[1:]) for x in h]
        if sorted(idx) != list(range(n)) or [int(x[1:]) for x in t] != idx or any(b[j] is not bl[idx[j]] for j in range(n)):
            H_.fail(K + 'misaligned', 'baselines, heights and outlines are not permuted together', lambda m_: case(m_, got=[h, t]))
            continue
        H_.claim(z3.And(*[ys[idx[j]] + jit[idx[j]] < ys[idx[j + 1]] + jit[idx[j + 1]] for j in range(n - 1)]), K + 'not-sorted',
                 'lines are not ordered by their (jittered) vertical position', lambda m_: case(m_, got=h))
        H_.witness(lambda m_: case(m_, expect=h))
    return H_.result()


_F = 'pero_ocr/layout_engines/cnn_layout_engine.py'


def canaries(tier):
    q = [t for t in tasks('quick') if t['mode'] == 'detect']
    return [
        {'name': 'rot == 1 uses shape[1] (invisible on square pages)', 'patches': [(_F, '            for b in b_list:\n                b[:, 0] = shape[0] - b[:, 0]\n', '            for b in b_list:\n                b[:, 0] = shape[1] - b[:, 0]\n')],
         'tasks': [t for t in q if t['rot'] == 1]},
        {'name': 'rot == 3 polygons not flipped', 'patches': [(_F, '        elif rot == 3:\n            b_list = [np.flip(b, axis=1) for b in b_list]\n            t_list = [np.flip(t, axis=1) for t in t_list]\n            p_list = [np.flip(p, axis=1) for p in p_list]',
                                                                '        elif rot == 3:\n            b_list = [np.flip(b, axis=1) for b in b_list]\n            t_list = [np.flip(t, axis=1) for t in t_list]')],
         'tasks': [t for t in q if t['rot'] == 3]},
        {'name': 'rot == 2 subtracts from (H, W) instead of (W, H)', 'patches': [(_F, 'shape_array = np.asarray(shape[:2][::-1])', 'shape_array = np.asarray(shape[:2])')],
         'tasks': [t for t in q if t['rot'] == 2]},
        {'name': 'detect passes the original image shape to rotate_layout', 'patches': [(_F, "        if rot > 0:\n            image = np.rot90(image, k=rot)\n", "        original = image\n        if rot > 0:\n            image = np.rot90(image, k=rot)\n"),
                                                                                     (_F, 'rot, image.shape)', 'rot, original.shape)')],
         'tasks': [t for t in q if t['rot'] in (1, 3)]},
    ]

"""C01 -- PAGE XML export/import preserves the page layout.

Symbolic execution of the PAGE XML writer and reader of pero_ocr/core/layout.py on layouts whose coordinates,
heights, confidences, line indices, page size and reading-order indices are symbolic; lxml is a pure-Python
element-tree stub (serialise . parse = identity on structure / attributes / text, '' -> None, default namespace
applied) and numbers inside attribute strings are placeholders that parse back to the printed value
(DESIGN.md 2.7).
"""
import itertools
import types
import z3

from symx import core, etstub, fmt
from symx.core import S, SB
from symx import symnp
from symx.harness import Harness, mv

ID = 'C01'

META = {
    'functions': [
        'pero_ocr/core/layout.py:PageLayout.to_pagexml_string',
        'pero_ocr/core/layout.py:RegionLayout.to_page_xml',
        'pero_ocr/core/layout.py:PageLayout.from_pagexml',
        'pero_ocr/core/layout.py:PageLayout.from_pagexml_string',
        'pero_ocr/core/layout.py:PageLayout.__init__',
        'pero_ocr/core/layout.py:get_region_from_page_xml',
        'pero_ocr/core/layout.py:get_coords_form_page_xml',
        'pero_ocr/core/layout.py:points_string_to_array',
        'pero_ocr/core/layout.py:get_reading_order',
        'pero_ocr/core/layout.py:PageLayout.reading_order_to_page_xml',
        'pero_ocr/core/layout.py:PageLayout.sort_regions_by_reading_order',
        'pero_ocr/core/layout.py:element_schema',
        'pero_ocr/core/layout.py:export_id',
    ],
    'bounds': {
        'quick': '0..2 regions x 0..2 lines, region polygons of 3 points, baselines of 2 points, every coordinate / height / '
                 'confidence / index / page size symbolic (negative and fractional coordinates included); per line one of 6 '
                 'option patterns (heights, confidence, index present or absent; transcription absent / empty / text); both PAGE '
                 'versions; reading order over 3 regions with symbolic indices (every permutation and every partial map)',
        'thorough': '0..3 regions x 0..2 lines, 4-point polygons; reading order over 4 regions',
    },
    'assumptions': [
        'lxml: serialise followed by parse is the identity on structure, attribute strings and text except \'\' -> None; default namespace applied to un-prefixed tags (stub)',
        'number <-> text: "{}"/str() of an int and float()/int() of its text are exact; f"{x:.kf}" prints x correctly rounded to k decimals (ties to even on the exact value); |coordinates| < 2^53',
        'a line carries a confidence only together with a transcription (the PAGE format stores it on TextEquiv)',
        'heights missing in the file are guessed from the polygon (shapely + RNG): stub returning arbitrary non-negative values',
    ],
    'outside': ['XML escaping, Unicode legality, pretty printing, encodings (lxml / libxml2)', 'legacy custom-attribute height formats; Coords given as Point children',
                'validate_id=True (ids are deliberately rewritten)'],
    'stubs': ['lxml.etree -> symx.etstub', 'io.BytesIO -> document holder', 'json.loads of "[h0,h1]" with placeholders', 'guess_line_heights_from_polygon -> arbitrary non-negative heights',
              'datetime.now -> constant'],
}

LINE_OPTS = [
    # (heights, conf, index, transcription)
    (True, True, True, 'text'),
    (True, False, False, 'text'),
    (False, False, True, None),
    (True, True, False, ''),
    (False, True, True, 'text with <&> "quotes" ́ א\U0001f600'),
    (True, False, True, None),
]


def tasks(tier):
    ts = []
    rmax = 2 if tier == 'quick' else 3
    for ver in ('2019', '2013'):
        for shape in itertools.chain.from_iterable(itertools.product(range(3), repeat=r) for r in range(rmax + 1)):
            if tier == 'quick' and sum(shape) > 3:
                continue
            if tier != 'quick' and sum(shape) > 4:
                continue
            ts.append({'mode': 'roundtrip', 'ver': ver, 'shape': list(shape), 'npoly': 3 if tier == 'quick' else 4})
    for n in ((3,) if tier == 'quick' else (3, 4)):
        for listed in itertools.product((False, True), repeat=n):
            ts.append({'mode': 'order', 'n': n, 'listed': list(listed), 'ver': '2019'})
    for t in ts:
        if t['mode'] == 'roundtrip' and sum(t['shape']) >= 3:
            t['split'] = 12
    ts.sort(key=lambda t: -(sum(t.get('shape', [1])) + t.get('n', 0)))
    return ts


def _json_shim():
    import json as _json
    m = types.ModuleType('json')
    m.__dict__.update({k: v for k, v in vars(_json).items() if not k.startswith('__')})

    def loads(s, *a, **k):
        if fmt.has_placeholder(s):
            t = s.strip()
            if t.startswith('[') and t.endswith(']'):
                from symx import shims
                return [shims._float(x) for x in t[1:-1].split(',')]
            raise ValueError('json with embedded symbolic numbers: %r' % (s,))
        return _json.loads(s, *a, **k)
    m.loads = loads
    return m


def _harness(patches):
    sm = dict(etstub.make_module())
    sm['json'] = _json_shim()
    H = Harness(patches, shim_map=sm)
    fmt.install()
    L = H.load('pero_ocr.core.layout')
    L.BytesIO = etstub.BytesIO

    def guess(text_line, use_center=False, n=10, interpolate=False):
        a, b = z3.Real(core.fresh_name('guess_up')), z3.Real(core.fresh_name('guess_down'))
        core.assume(z3.And(a >= 0, b >= 0))
        text_line.heights = [S(a), S(b)]
    L.guess_line_heights_from_polygon = guess
    return H, L


def run_task(task, patches=None):
    H, L = _harness(patches)
    if task['mode'] == 'order':
        return _run_order(H, L, task)
    return _run_roundtrip(H, L, task)


def _pts(name, n):
    return [[z3.Real('%s_%d_x' % (name, i)), z3.Real('%s_%d_y' % (name, i))] for i in range(n)]


def _arr(pts):
    return symnp.A([S(v) for p in pts for v in p], (len(pts), 2))


def _version(L, ver):
    return L.PAGEVersion.PAGE_2019_07_15 if ver == '2019' else L.PAGEVersion.PAGE_2013_07_15


def _run_roundtrip(H, L, task):
    shape, ver, npoly = task['shape'], task['ver'], task['npoly']
    K = 'C01:roundtrip:'
    ph, pw = z3.Int('page_h'), z3.Int('page_w')
    rpolys = [_pts('r%d' % r, npoly) for r in range(len(shape))]
    lpolys = [[_pts('r%dl%dp' % (r, l), npoly) for l in range(n)] for r, n in enumerate(shape)]
    lbases = [[_pts('r%dl%db' % (r, l), 2) for l in range(n)] for r, n in enumerate(shape)]
    lh = [[[z3.Real('r%dl%dh%d' % (r, l, k)) for k in range(2)] for l in range(n)] for r, n in enumerate(shape)]
    lconf = [[z3.Real('r%dl%dconf' % (r, l)) for l in range(n)] for r, n in enumerate(shape)]
    lidx = [[z3.Int('r%dl%didx' % (r, l)) for l in range(n)] for r, n in enumerate(shape)]
    allvars = [ph, pw] + [v for ps in rpolys for p in ps for v in p] + [v for a in lpolys for ps in a for p in ps for v in p] + \
              [v for a in lbases for ps in a for p in ps for v in p] + [v for a in lh for hs in a for v in hs] + \
              [v for a in lconf for v in a] + [v for a in lidx for v in a]
    picked = {}

    def case(m_, **kw):
        c = {'mode': 'roundtrip', 'ver': ver, 'shape': shape, 'npoly': npoly, 'opts': {('%d_%d' % k): v for k, v in picked.items()},
             'vals': {v.decl().name(): mv(m_, S(v)) for v in allvars}}
        c.update(kw)
        return c

    def build():
        pl = L.PageLayout(id='page é.jpg', page_size=(S(ph), S(pw)))
        for r, n in enumerate(shape):
            reg = L.RegionLayout('r%d' % r, _arr(rpolys[r]), region_type=('paragraph' if r % 2 == 0 else None))
            reg.transcription = [None, '', 'region text'][r % 3]
            for l in range(n):
                o = LINE_OPTS[picked[(r, l)]]
                line = L.TextLine(id='r%d-l%d' % (r, l), baseline=_arr(lbases[r][l]), polygon=_arr(lpolys[r][l]),
                                  heights=[S(lh[r][l][0]), S(lh[r][l][1])] if o[0] else None,
                                  transcription=o[3],
                                  transcription_confidence=S(lconf[r][l]) if (o[1] and o[3] is not None) else None,
                                  index=S(lidx[r][l]) if o[2] else None)
                reg.lines.append(line)
            pl.regions.append(reg)
        return pl

    def body():
        fmt.reset()
        picked.clear()
        core.assume(z3.And(ph >= 0, pw >= 0))
        for r, n in enumerate(shape):
            for l in range(n):
                picked[(r, l)] = core.choose(len(LINE_OPTS))
                core.assume(z3.And(lh[r][l][0] >= 0, lh[r][l][1] >= 0, lconf[r][l] >= 0, lconf[r][l] <= 1, lidx[r][l] >= 0))
        L1 = build()
        s1 = L1.to_pagexml_string(version=_version(L, ver))
        L2 = L.PageLayout()
        L2.from_pagexml_string(s1)
        s2 = L2.to_pagexml_string(version=_version(L, ver))
        L3 = L.PageLayout()
        L3.from_pagexml_string(s2)
        s3 = L3.to_pagexml_string(version=_version(L, ver))
        return L1, L2, s2, s3

    if task.get('split_only'):
        return H.result(prefixes=H.split(body, task['split_only']))

    def rnd(e):
        return core.sround(S(e)).e

    for p, res, exc in H.explore(body, root=task.get('prefix')):
        if exc is not None:
            H.fail(K + 'exception:' + type(exc).__name__, 'raised %r' % (exc,), lambda m_: case(m_))
            continue
        L1, L2, s2, s3 = res
        conj = []
        struct_ok = True

        def same(a, b, what):
            nonlocal struct_ok
            if a != b:
                struct_ok = False
                H.fail(K + 'structure', '%s differs after the round trip: %r -> %r' % (what, a, b), lambda m_: case(m_))
        same(L1.id, L2.id, 'page id')
        if struct_ok:
            conj.append(('page size', z3.And(core.lift(L2.page_size[0]) == ph, core.lift(L2.page_size[1]) == pw)))
        same(len(L1.regions), len(L2.regions), 'number of regions')
        if not struct_ok:
            continue
        for r, (a, b) in enumerate(zip(L1.regions, L2.regions)):
            same(a.id, b.id, 'region id')
            same(a.region_type, b.region_type, 'region type')
            same(a.transcription, b.transcription, 'region text')
            same(len(a.lines), len(b.lines), 'number of lines of region %d' % r)
            if not struct_ok:
                break
            bp = symnp.asarray(b.polygon)
            if bp.shape != (npoly, 2):
                same((npoly, 2), bp.shape, 'region polygon shape')
                break
            conj.append(('region %d polygon' % r, z3.And(*[core.lift(bp[i, j]) == rnd(rpolys[r][i][j]) for i in range(npoly) for j in range(2)])))
            for l, (x, y) in enumerate(zip(a.lines, b.lines)):
                o = LINE_OPTS[picked[(r, l)]]
                same(x.id, y.id, 'line id')
                same(x.transcription, y.transcription, 'transcription of line %s' % x.id)
                if not struct_ok:
                    break
                yb, yp = symnp.asarray(y.baseline), symnp.asarray(y.polygon)
                if yb.shape != (2, 2) or yp.shape != (npoly, 2):
                    same('shapes', (yb.shape, yp.shape), 'line geometry shape')
                    break
                conj.append(('baseline of %s' % x.id, z3.And(*[core.lift(yb[i, j]) == rnd(lbases[r][l][i][j]) for i in range(2) for j in range(2)])))
                conj.append(('polygon of %s' % x.id, z3.And(*[core.lift(yp[i, j]) == rnd(lpolys[r][l][i][j]) for i in range(npoly) for j in range(2)])))
                conj.append(('index of %s' % x.id, core.lift(y.index) == (lidx[r][l] if o[2] else z3.IntVal(l))))
                if o[0]:
                    hs = y.heights
                    if hs is None or len(hs) != 2:
                        same('2 heights', repr(hs), 'heights of %s' % x.id)
                        break
                    tol = z3.RealVal('1/20')
                    conj.append(('heights of %s' % x.id, z3.And(*[z3.And(core.lift(hs[k]) - lh[r][l][k] <= tol, lh[r][l][k] - core.lift(hs[k]) <= tol) for k in range(2)])))
                if o[1] and o[3] is not None:
                    if y.transcription_confidence is None:
                        same('a confidence', None, 'confidence of %s' % x.id)
                        break
                    tol = z3.RealVal('1/2000')
                    d = core.lift(y.transcription_confidence) - lconf[r][l]
                    conj.append(('confidence of %s' % x.id, z3.And(d <= tol, -d <= tol)))
                else:
                    same(None, y.transcription_confidence, 'confidence of %s' % x.id)
            if not struct_ok:
                break
        if not struct_ok:
            continue
        for what, c in conj:
            H.claim(c, K + 'value', '%s is not preserved up to the documented rounding' % what, lambda m_: case(m_, what=what))
        # fixpoint: export(L2) == export(import(export(L2))), timestamps aside
        d2, d3 = _doc(s2), _doc(s3)
        eq = _tree_eq(d2, d3)
        if eq is False:
            H.fail(K + 'fixpoint-structure', 're-exporting the re-loaded page does not give a document identical to its own re-import / re-export', lambda m_: case(m_))
        elif eq is not True:
            H.claim(eq, K + 'fixpoint-value', 're-exporting the re-loaded page gives different numbers than its own re-import / re-export', lambda m_: case(m_))
        H.witness(lambda m_: case(m_, expect=_summary(m_, L2)))
    return H.result()


def _summary(m_, L2):
    out = {'page': [mv(m_, L2.page_size[0]), mv(m_, L2.page_size[1])], 'regions': []}
    for reg in L2.regions:
        out['regions'].append({'id': reg.id, 'poly': [mv(m_, v) for v in symnp.asarray(reg.polygon).d],
                               'lines': [{'id': l.id, 'index': mv(m_, l.index), 'base': [mv(m_, v) for v in symnp.asarray(l.baseline).d],
                                          'poly': [mv(m_, v) for v in symnp.asarray(l.polygon).d], 'text': l.transcription,
                                          'conf': None if l.transcription_confidence is None else mv(m_, l.transcription_confidence)} for l in reg.lines]})
    return out


def _doc(s):
    """document tree without the Metadata element (timestamps)"""
    root = s.tree
    kids = [c for c in root if not c.tag.endswith('Metadata')]
    return root, kids


def _tree_eq(a, b):
    (ra, ka), (rb, kb) = a, b
    conj = []

    def eq(x, y):
        if x.tag != y.tag or sorted(x.attrib) != sorted(y.attrib) or len(x) != len(y):
            return False
        for k in x.attrib:
            e = fmt.equal_strings(x.attrib[k], y.attrib[k])
            if e is False:
                return False
            if e is not True:
                conj.append(e)
        e = fmt.equal_strings(x.text, y.text) if (isinstance(x.text, str) or x.text is None) and (isinstance(y.text, str) or y.text is None) else (x.text == y.text)
        if e is False:
            return False
        if e is not True:
            conj.append(e)
        return all(eq(c, d) for c, d in zip(x, y))
    if ra.tag != rb.tag or len(ka) != len(kb):
        return False
    if not all(eq(c, d) for c, d in zip(ka, kb)):
        return False
    return z3.And(*conj) if conj else True


def _run_order(H, L, task):
    n, listed, ver = task['n'], task['listed'], task['ver']
    K = 'C01:order:'
    idx = [z3.Int('order_%d' % i) for i in range(n)]

    def case(m_, **kw):
        c = {'mode': 'order', 'n': n, 'listed': listed, 'ver': ver, 'index': [mv(m_, S(v)) for v in idx]}
        c.update(kw)
        return c

    def body():
        fmt.reset()
        for v in idx:
            core.assume(z3.And(v >= 0, v < 5))
        pl = L.PageLayout(id='p', page_size=(10, 10))
        for i in range(n):
            pl.regions.append(L.RegionLayout('r%d' % i, symnp.A([0, 0, 1, 0, 1, 1], (3, 2))))
        pl.reading_order = {('r%d' % i): S(idx[i]) for i in range(n) if listed[i]}
        s1 = pl.to_pagexml_string(version=_version(L, ver))
        held = [r.id for r in pl.regions]
        written = [el.attrib['id'] for el in s1.tree.iter() if el.tag.endswith('TextRegion')]
        L2 = L.PageLayout(file=s1)
        loaded = [r.id for r in L2.regions]
        ro2 = dict(L2.reading_order)
        return held, written, loaded, ro2

    def sorted_claim(order):
        """z3: `order` (list of region numbers) is sorted by (index, original position), unlisted last"""
        conj = []
        for a, b in zip(order, order[1:]):
            if listed[a] and listed[b]:
                conj.append(z3.Or(idx[a] < idx[b], z3.And(idx[a] == idx[b], a < b)))
            elif listed[a] and not listed[b]:
                pass
            elif not listed[a] and listed[b]:
                conj.append(z3.BoolVal(False))
            else:
                conj.append(z3.BoolVal(a < b))
        return z3.And(*conj) if conj else z3.BoolVal(True)

    for p, res, exc in H.explore(body):
        if exc is not None:
            H.fail(K + 'exception:' + type(exc).__name__, 'raised %r' % (exc,), lambda m_: case(m_))
            continue
        held, written, loaded, ro2 = res
        for name, seq in (('held', held), ('written', written), ('re-loaded', loaded)):
            if sorted(seq) != ['r%d' % i for i in range(n)]:
                H.fail(K + 'regions-lost', 'regions %s are not the input regions: %r' % (name, seq), lambda m_: case(m_))
                break
            order = [int(x[1:]) for x in seq]
            H.claim(sorted_claim(order), K + 'not-in-reading-order', 'regions %s are not in reading order (unlisted last, otherwise stable): %r' % (name, seq),
                    lambda m_: case(m_, which=name, got=seq))
        exp_keys = sorted('r%d' % i for i in range(n) if listed[i])
        if sorted(ro2) != exp_keys:
            H.fail(K + 'order-lost', 'reading order not restored: %r' % (sorted(ro2),), lambda m_: case(m_))
        else:
            H.claim(z3.And(*[core.lift(ro2['r%d' % i]) == idx[i] for i in range(n) if listed[i]]) if exp_keys else True,
                    K + 'order-value', 'reading-order indices changed by the round trip', lambda m_: case(m_))
        H.witness(lambda m_: case(m_, expect={'written': written, 'loaded': loaded}))
    return H.result()


_F = 'pero_ocr/core/layout.py'


def canaries(tier):
    q = [t for t in tasks('quick') if t['mode'] == 'roundtrip' and 1 <= sum(t['shape']) <= 2]
    qo = [t for t in tasks('quick') if t['mode'] == 'order']
    return [
        {'name': 'reading order keyed by the region object (the defect repaired by the fix: commit)',
         'patches': [(_F, 'key=lambda k: self.reading_order[k.id] if k.id in self.reading_order else float("inf")', 'key=lambda k: self.reading_order[k] if k in self.reading_order else float("inf")')],
         'tasks': qo},
        {'name': 'region coordinates truncated instead of rounded',
         'patches': [(_F, 'points = ["{},{}".format(int(np.round(coord[0])), int(np.round(coord[1]))) for coord in self.polygon]', 'points = ["{},{}".format(int(coord[0]), int(coord[1])) for coord in self.polygon]')],
         'tasks': q},
        {'name': 'heights printed without decimals', 'patches': [(_F, 'heights_v2:[{line.heights[0]:.1f},{line.heights[1]:.1f}]', 'heights_v2:[{line.heights[0]:.0f},{line.heights[1]:.0f}]')], 'tasks': q},
        {'name': 'empty transcription read back as None', 'patches': [(_F, "                    if t_unicode is None:\n                        t_unicode = ''\n", '')], 'tasks': q},
        {'name': 'confidence of exactly 0 dropped on export', 'patches': [(_F, 'if line.transcription_confidence is not None:\n                        text_element.set("conf"', 'if line.transcription_confidence:\n                        text_element.set("conf"')],
         'tasks': q},
    ]

"""C10 replay against the real EngineLineCropper with the real cv2."""
from fractions import Fraction

import numpy as np

from pero_ocr.core.crop_engine import EngineLineCropper


def _f(x):
    return float(Fraction(x)) if isinstance(x, str) else float(x)


def _remap(case):
    import cv2
    Hh, Ww = [max(1, int(_f(v))) for v in case['img']]
    Hh, Ww = min(Hh, 600), min(Ww, 600)
    rng = np.random.RandomState(7)
    img = rng.randint(1, 255, size=(Hh, Ww, 3)).astype(np.uint8)
    pts = [[min(_f(a), Ww + 40.0), min(_f(b), Hh + 40.0)] for a, b in case['points']]
    coords = np.array([pts], dtype=np.float32)
    cropper = EngineLineCropper(line_height=32, poly=0, scale=1)
    got = cropper.fast_remap(img, coords)
    full = cv2.remap(img, coords[:, :, 0], coords[:, :, 1], interpolation=cv2.INTER_LINEAR, borderMode=cv2.BORDER_CONSTANT)
    x_min, y_min = int(np.floor(coords[:, :, 0].min())), int(np.floor(coords[:, :, 1].min()))
    x_max, y_max = int(np.ceil(coords[:, :, 0].max())), int(np.ceil(coords[:, :, 1].max()))
    fast = not (x_min < 0 or y_min < 0 or x_max > Ww - 1 or y_max > Hh - 1)
    bad = None
    if got.shape != full.shape or np.abs(got.astype(int) - full.astype(int)).max() > 1:
        bad = 'fast_remap differs from remapping the whole page: %r vs %r' % (got.tolist(), full.tolist())
    return fast, bad


def _fallback(case):
    kinds = [ValueError('x'), IndexError('x'), ZeroDivisionError('x'), TypeError('x'), OverflowError('x')]
    cropper = EngineLineCropper(line_height=24, poly=0, scale=1)

    def boom(b, h, t):
        raise kinds[case.get('kind', 0)]
    cropper.get_crop_inputs = boom
    import contextlib, io
    with contextlib.redirect_stdout(io.StringIO()):
        crop = cropper.crop(np.zeros((100, 200, 3), dtype=np.uint8), None, [5, 3])
    bad = None if (crop.shape[0] == 24 and crop.shape[2] == 3 and not crop.any()) else 'fallback crop %r' % (crop.shape,)
    return list(crop.shape), bad


def replay(case):
    try:
        got, bad = (_remap if case['mode'] == 'remap' else _fallback)(case)
    except Exception as e:
        return {'reproduced': True, 'detail': 'raised %r' % (e,)}
    return {'reproduced': bad is not None, 'detail': bad or 'ok'}


def check_witness(w):
    got, bad = (_remap if w['mode'] == 'remap' else _fallback)(w)
    if w['mode'] == 'remap':
        big = max(_f(v) for v in w['img']) > 600 or any(_f(v) > 600 for pt in w['points'] for v in pt)
        return {'match': bad is None and (big or got == w['expect']['fast']), 'got': got, 'bad': bad}
    return {'match': bad is None and got == w['expect'], 'got': got, 'bad': bad}

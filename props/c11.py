"""C11 -- lines are assigned to the regions they lie in, clipped, with unique ids.

Symbolic execution of layout_helpers.assign_lines_to_regions / mask_textline_by_region and of
LayoutExtractor.process_page / TextlineExtractorSimple.process_page over an abstract geometry kernel: the
polygon clipping itself is GEOS (C++); what the repository adds -- the bounding-box pre-filter, validity
repair, the choice among multi-part intersections, the length threshold, the id numbering, the orientation
and merge loops -- runs on shapely stand-ins whose intersection results are chosen by the solver within the
library's contract.
"""
import itertools
import types
import z3

from symx import core
from symx.core import S, SB
from symx import symnp, shims
from symx.harness import Harness, mv

ID = 'C11'

META = {
    'functions': [
        'pero_ocr/layout_engines/layout_helpers.py:assign_lines_to_regions',
        'pero_ocr/layout_engines/layout_helpers.py:mask_textline_by_region',
        'pero_ocr/document_ocr/page_parser.py:LayoutExtractor.process_page',
        'pero_ocr/document_ocr/page_parser.py:TextlineExtractorSimple.process_page',
    ],
    'bounds': {
        'quick': '(regions x lines) in {1x1, 2x1, 1x2}: rectangular regions with symbolic corners, detected lines with symbolic 2-point baselines; per (line, region) '
                 'pair the kernel outcome is chosen by the solver: intersects or not, validity of both polygons, baseline-intersection kind '
                 '(empty / line of symbolic length / 2..3 parts of symbolic lengths / other), outline-intersection kind (polygon / 2..3 '
                 'parts of symbolic areas / other); LayoutExtractor: all 16 combinations of DETECT_REGIONS, DETECT_LINES, MERGE_LINES, '
                 'MULTI_ORIENTATION with a stub detector returning 0..2 lines per orientation',
        'thorough': 'also 2x2, 3x1, 1x3 (the full outcome space of the kernel for one focus pair at a time, the other pairs single-piece)',
    },
    'assumptions': [
        'shapely contract: a baseline whose end points lie in a (convex) rectangle intersects it and its intersection is the baseline itself; '
        'geometries with disjoint bounding boxes do not intersect; every part of an intersection is a piece of both operands',
        'region ids are distinct and do not themselves end in -l<digits>; float32 rounding of the bounding boxes is the identity',
    ],
    'outside': ['GEOS itself: that a returned piece IS the geometric intersection', 'merge_lines / baseline_to_textline geometry, detect_lines_in_region, adjust_heights, adjust_baselines (need network maps)'],
    'stubs': ['shapely -> abstract kernel with solver-chosen outcomes', 'LayoutEngine.detect, helpers.merge_lines, helpers.baseline_to_textline -> stubs', 'numpy -> symx.symnp'],
}


def tasks(tier):
    ts = []
    shapes = [(1, 1), (2, 1), (1, 2)] if tier == 'quick' else [(1, 1), (2, 1), (1, 2), (2, 2), (3, 1), (1, 3)]
    for nr, nl in shapes:
        # the kernel's outcome space is explored in full for one (line, region) pair at a time (the 'focus'); for the other
        # pairs the intersection is a single piece / polygon and both polygons are valid
        for fl in range(nl):
            for fr in range(nr):
                t = {'mode': 'assign', 'nr': nr, 'nl': nl, 'focus': [fl, fr]}
                if nr * nl >= 2:
                    t['split'] = 32
                ts.append(t)
    for flags in itertools.product((False, True), repeat=4):
        ts.append({'mode': 'extractor', 'flags': list(flags)})
    ts.append({'mode': 'simple'})
    ts.sort(key=lambda t: -(t.get('nr', 1) * t.get('nl', 1)))
    return ts


# -- abstract geometry kernel ---------------------------------------------------------------------------------

class Tok:
    """opaque coordinate sequence of a piece returned by the kernel"""

    def __init__(self, *tag):
        self.tag = tag

    def __repr__(self):
        return 'Tok%r' % (self.tag,)


def _tok(x):
    if isinstance(x, symnp.A) and x.shape == () and isinstance(x.d[0], Tok):
        return x.d[0]
    return x if isinstance(x, Tok) else None


class Geo:
    kind = 'Geometry'

    def __init__(self, coords=None, tag=None):
        self.coords_arr = coords
        self.tag = tag


class LineString(Geo):
    kind = 'LineString'

    def __init__(self, coords=None, tag=None, length=None):
        Geo.__init__(self, coords, tag)
        self._length = length

    @property
    def coords(self):
        return self.coords_arr if self.coords_arr is not None else Tok('coords-of', self.tag)

    @property
    def length(self):
        return self._length

    def intersects(self, other):
        return KERNEL.intersects(self, other)


class _Ring:
    def __init__(self, owner):
        self.coords = owner.coords_arr if owner.coords_arr is not None else Tok('exterior-of', owner.tag)


class Polygon(Geo):
    kind = 'Polygon'

    def __init__(self, coords=None, tag=None, area=None, valid=None, hull_of=None):
        Geo.__init__(self, coords, tag)
        self._area = area
        self._valid = valid
        self.hull_of = hull_of

    @property
    def area(self):
        return self._area

    @property
    def is_valid(self):
        return KERNEL.is_valid(self)

    @property
    def convex_hull(self):
        return Polygon(None, ('hull', self.tag), hull_of=self)

    @property
    def exterior(self):
        return _Ring(self)

    def intersection(self, other):
        return KERNEL.intersection(self, other)


class Multi(Geo):
    def __init__(self, kind, parts):
        Geo.__init__(self, None, ('multi', kind))
        self.kind = kind
        self.geoms = parts


class MultiPolygon(Multi):
    pass


class MultiLineString(Multi):
    pass


class Kernel:
    """outcomes of the GEOS predicates for the current (line, region) pair, chosen by the solver"""

    def __init__(self):
        self.reset()

    def reset(self):
        self.log = []
        self.inside = None

    def intersects(self, line, region):
        raise NotImplementedError


KERNEL = None


def _shapely_modules(kernel):
    sg = types.ModuleType('shapely.geometry')
    for k, v in (('Polygon', lambda c: kernel.make_polygon(c)), ('LineString', lambda c: kernel.make_line(c))):
        setattr(sg, k, v)
    # isinstance() targets
    sg.MultiPolygon = MultiPolygon
    sg.MultiLineString = MultiLineString
    sh = types.ModuleType('shapely')
    sh.geometry = sg
    sh.errors = types.SimpleNamespace(TopologicalError=type('TopologicalError', (Exception,), {}))
    ops = shims.Inert('shapely.ops')
    sh.ops = ops
    sh.affinity = shims.Inert('shapely.affinity')
    sg.Point = shims.make_inert('shapely.geometry.Point')
    return {'shapely': sh, 'shapely.geometry': sg, 'shapely.ops': ops, 'shapely.affinity': sh.affinity}


class _IsPoly(type):
    def __instancecheck__(cls, x):
        return isinstance(x, Polygon)


class _IsLine(type):
    def __instancecheck__(cls, x):
        return isinstance(x, LineString)


class PairKernel:
    """geometry constructor + predicate outcomes; one (line, region) pair at a time, identified by array identity"""

    def __init__(self):
        self.regions = {}      # id(array) -> index
        self.lines = {}
        self.polys = {}
        self.calls = []
        self.cur = {}

    def make_polygon(self, coords):
        p = Polygon(coords, ('poly', id(coords)))
        return p

    def make_line(self, coords):
        return LineString(coords, ('line', id(coords)))

    # predicates -----------------------------------------------------------------------------------------
    def pair(self, line, region):
        li = self.lines.get(id(line.coords_arr))
        root = region
        while root.hull_of is not None:
            root = root.hull_of
        ri = self.regions.get(id(root.coords_arr))
        return li, ri

    def intersects(self, line, region):
        li, ri = self.pair(line, region)
        self.calls.append((li, ri))
        v = self.outcome[(li, ri)]
        if region.hull_of is not None:
            # touching the convex hull of a region is a weaker fact than touching the region (contract: intersects -> intersects_hull)
            return core.branch(v['intersects_hull'])
        return core.branch(v['intersects'])

    def is_valid(self, poly):
        if poly.hull_of is not None:
            return True
        key = ('valid', id(poly.coords_arr))
        if id(poly.coords_arr) in self.regions:
            if self.regions[id(poly.coords_arr)] != self.focus[1]:
                return True
            return core.branch(self.valid_region[self.regions[id(poly.coords_arr)]])
        if self.polys[id(poly.coords_arr)] != self.focus[0]:
            return True
        return core.branch(self.valid_textline[self.polys[id(poly.coords_arr)]])

    def intersection(self, region, other):
        root = region
        while root.hull_of is not None:
            root = root.hull_of
        ri = self.regions[id(root.coords_arr)]
        if isinstance(other, LineString):
            li = self.lines[id(other.coords_arr)]
            o = self.outcome[(li, ri)]
            if core.branch(o['inside']):
                # wholly inside a convex region: the intersection is the baseline itself
                self.result[(li, ri)]['base'] = ('whole',)
                return LineString(other.coords_arr, ('line', id(other.coords_arr)), length=o['len_whole'])
            k = core.choose(4) if (li, ri) == tuple(self.focus) else 1
            if k == 0:
                self.result[(li, ri)]['base'] = ('empty',)
                return Geo(None, 'empty')
            if k == 1:
                self.result[(li, ri)]['base'] = ('piece', 0)
                return LineString(None, ('piece', li, ri, 0), length=S(o['len'][0]))
            if k == 2:
                m = 2 + core.choose(2)
                parts = [LineString(None, ('piece', li, ri, j), length=S(o['len'][j])) for j in range(m)]
                self.result[(li, ri)]['base'] = ('multi', m)
                return MultiLineString('MultiLineString', parts)
            self.result[(li, ri)]['base'] = ('other',)
            return Geo(None, 'point')
        # outline
        src = other
        while src.hull_of is not None:
            src = src.hull_of
        li = self.polys[id(src.coords_arr)]
        o = self.outcome[(li, ri)]
        k = core.choose(3) if (li, ri) == tuple(self.focus) else 0
        if k == 0:
            self.result[(li, ri)]['outline'] = ('piece', 0)
            return Polygon(None, ('clip', li, ri, 0), area=S(o['area'][0]))
        if k == 1:
            m = 2 + core.choose(2)
            parts = [Polygon(None, ('clip', li, ri, j), area=S(o['area'][j])) for j in range(m)]
            self.result[(li, ri)]['outline'] = ('multi', m)
            return MultiPolygon('MultiPolygon', parts)
        self.result[(li, ri)]['outline'] = ('other',)
        return Geo(None, 'collection')


def run_task(task, patches=None):
    global KERNEL
    kern = PairKernel()
    KERNEL = kern
    sm = _shapely_modules(kern)
    H = Harness(patches, shim_map=sm, extra_builtins={'print': lambda *a, **k: None})
    hl = H.load('pero_ocr.layout_engines.layout_helpers')
    hl.sg.LineString = _with_instancecheck(hl.sg.LineString, LineString)
    hl.sg.Polygon = _with_instancecheck(hl.sg.Polygon, Polygon)
    L = H.load('pero_ocr.core.layout')
    if task['mode'] == 'assign':
        return _run_assign(H, hl, L, kern, task)
    if task['mode'] == 'extractor':
        return _run_extractor(H, hl, L, kern, task)
    return _run_simple(H, hl, L, kern, task)


def _with_instancecheck(factory, cls):
    """callable like shapely's class (constructs through the kernel) that also works in isinstance()"""
    class Meta(type):
        def __instancecheck__(c, x):
            return isinstance(x, cls)

        def __call__(c, *a, **k):
            return factory(*a, **k)
    return Meta(cls.__name__, (), {})


def _run_assign(H, hl, L, kern, task):
    nr, nl = task['nr'], task['nl']
    K = 'C11:assign:'
    rx0 = [z3.Real('rx0_%d' % r) for r in range(nr)]
    rx1 = [z3.Real('rx1_%d' % r) for r in range(nr)]
    ry0 = [z3.Real('ry0_%d' % r) for r in range(nr)]
    ry1 = [z3.Real('ry1_%d' % r) for r in range(nr)]
    bx = [[z3.Real('b%d_x%d' % (l, k)) for k in range(2)] for l in range(nl)]
    by = [[z3.Real('b%d_y%d' % (l, k)) for k in range(2)] for l in range(nl)]
    outcome = {}
    for l in range(nl):
        for r in range(nr):
            outcome[(l, r)] = {'intersects': z3.Bool('intersects_%d_%d' % (l, r)), 'intersects_hull': z3.Bool('intersects_hull_%d_%d' % (l, r)), 'inside': z3.Bool('inside_%d_%d' % (l, r)),
                               'len': [z3.Real('len_%d_%d_%d' % (l, r, j)) for j in range(3)],
                               'area': [z3.Real('area_%d_%d_%d' % (l, r, j)) for j in range(3)],
                               'len_whole': None}
    kern.outcome = outcome
    kern.focus = task.get('focus', [0, 0])
    kern.valid_region = [z3.Bool('region_valid_%d' % r) for r in range(nr)]
    kern.valid_textline = [z3.Bool('textline_valid_%d' % l) for l in range(nl)]

    def case(m_, **kw):
        c = {'mode': 'assign', 'nr': nr, 'nl': nl,
             'regions': [[mv(m_, S(v)) for v in (rx0[r], ry0[r], rx1[r], ry1[r])] for r in range(nr)],
             'baselines': [[mv(m_, S(bx[l][0])), mv(m_, S(by[l][0])), mv(m_, S(bx[l][1])), mv(m_, S(by[l][1]))] for l in range(nl)],
             'kernel': {'%d_%d' % k: {'intersects': bool(mv(m_, SB(o['intersects']))), 'intersects_hull': bool(mv(m_, SB(o['intersects_hull']))), 'inside': bool(mv(m_, SB(o['inside']))),
                                      'base': list(kern.result.get(k, {}).get('base', ())), 'outline': list(kern.result.get(k, {}).get('outline', ())),
                                      'len': [mv(m_, S(x)) for x in o['len']], 'area': [mv(m_, S(x)) for x in o['area']],
                                      'len_whole': mv(m_, o['len_whole']) if o['len_whole'] is not None else None} for k, o in outcome.items()},
             'valid_region': [bool(mv(m_, SB(v))) for v in kern.valid_region], 'valid_textline': [bool(mv(m_, SB(v))) for v in kern.valid_textline]}
        c.update(kw)
        return c

    def body():
        kern.calls = []
        kern.result = {(l, r): {} for l in range(nl) for r in range(nr)}
        kern.regions, kern.lines, kern.polys = {}, {}, {}
        regions, b_list, h_list, t_list = [], [], [], []
        for r in range(nr):
            core.assume(z3.And(rx0[r] < rx1[r], ry0[r] < ry1[r]))
            poly = symnp.A([S(rx0[r]), S(ry0[r]), S(rx1[r]), S(ry0[r]), S(rx1[r]), S(ry1[r]), S(rx0[r]), S(ry1[r])], (4, 2))
            reg = L.RegionLayout('r%03d' % r, poly)
            kern.regions[id(poly)] = r
            regions.append(reg)
        for l in range(nl):
            base = symnp.A([S(bx[l][0]), S(by[l][0]), S(bx[l][1]), S(by[l][1])], (2, 2))
            outline = symnp.A(['outline_%d_%d' % (l, k) for k in range(8)], (4, 2))
            kern.lines[id(base)] = l
            kern.polys[id(outline)] = l
            b_list.append(base)
            h_list.append('heights_%d' % l)
            t_list.append(outline)
            dx, dy = bx[l][1] - bx[l][0], by[l][1] - by[l][0]
            ln = z3.Real('length_%d' % l)
            # the length of the baseline is a free non-negative real (its relation to the coordinates is GEOS's business;
            # the code only compares it with 2 px)
            core.assume(ln >= 0)
            for r in range(nr):
                o = outcome[(l, r)]
                o['len_whole'] = S(ln)
                ins = z3.And(*[z3.And(bx[l][k] >= rx0[r], bx[l][k] <= rx1[r], by[l][k] >= ry0[r], by[l][k] <= ry1[r]) for k in range(2)])
                lx0, lx1 = z3.If(bx[l][0] <= bx[l][1], bx[l][0], bx[l][1]), z3.If(bx[l][0] <= bx[l][1], bx[l][1], bx[l][0])
                ly0, ly1 = z3.If(by[l][0] <= by[l][1], by[l][0], by[l][1]), z3.If(by[l][0] <= by[l][1], by[l][1], by[l][0])
                disjoint = z3.Or(lx1 < rx0[r], lx0 > rx1[r], ly1 < ry0[r], ly0 > ry1[r])
                # contract of the kernel
                core.assume(z3.And(o['inside'] == ins, z3.Implies(ins, o['intersects']), z3.Implies(disjoint, z3.Not(o['intersects'])),
                                   z3.Implies(o['intersects'], o['intersects_hull']), z3.Implies(disjoint, z3.Not(o['intersects_hull'])),
                                   *[z3.And(x >= 0, x <= ln) for x in o['len']], *[x >= 0 for x in o['area']]))
        out = hl.assign_lines_to_regions(b_list, h_list, t_list, regions)
        return out, b_list, t_list

    if task.get('split_only'):
        return H.result(prefixes=H.split(body, task['split_only']))
    for p, res, exc in H.explore(body, root=task.get('prefix')):
        if exc is not None:
            H.fail(K + 'exception:' + type(exc).__name__, 'raised %r' % (exc,), lambda m_: case(m_))
            continue
        regions, b_list, t_list = res
        called = set(kern.calls)
        ids = [ln.id for reg in regions for ln in reg.lines]
        if len(set(ids)) != len(ids):
            H.fail(K + 'duplicate-ids', 'two lines got the same id: %r' % (ids,), lambda m_: case(m_, ids=ids))
        for l in range(nl):
            for r in range(nr):
                o = outcome[(l, r)]
                placed = [ln for ln in regions[r].lines if ln.id == 'r%03d-l%03d' % (r, l + 1)]
                resu = kern.result[(l, r)]
                # (a) pre-filter soundness: a pair whose geometries intersect must have been handed to the kernel
                if (l, r) not in called:
                    # a pair the pre-filter drops can share at most a corner point with the region: a baseline lying wholly
                    # inside the region is then a single point (which GEOS measures as length 0, never > 2 px)
                    H.claim(z3.Implies(o['inside'], z3.And(bx[l][0] == bx[l][1], by[l][0] == by[l][1])), K + 'prefilter-drops-inside-line',
                            'the bounding-box pre-filter dropped a line whose baseline lies wholly inside the region', lambda m_: case(m_, line=l, region=r),
                            robust=[z3.And(*[z3.And(bx[l][k_] >= rx0[r] + 1, bx[l][k_] <= rx1[r] - 1, by[l][k_] >= ry0[r] + 1, by[l][k_] <= ry1[r] - 1) for k_ in range(2)]),
                                    z3.Or(bx[l][1] - bx[l][0] >= 3, by[l][1] - by[l][0] >= 3)])
                    if placed:
                        H.fail(K + 'placed-without-check', 'a line was placed without clipping', lambda m_: case(m_))
                    continue
                if placed:
                    ln = placed[0]
                    # never for a non-intersecting pair
                    H.claim(o['intersects'], K + 'placed-not-touching', 'a line that does not touch the region was placed in it', lambda m_: case(m_, line=l, region=r))
                    b = resu.get('base')
                    t = resu.get('outline')
                    if b is None or t is None or b[0] in ('empty', 'other') or t[0] == 'other':
                        H.fail(K + 'placed-wrong-kind', 'a line was placed although its clipped baseline / outline is not a line / polygon',
                               lambda m_: case(m_, line=l, region=r, base=b, outline=t))
                        continue
                    # which piece is carried
                    if b[0] == 'whole':
                        if ln.baseline is not b_list[l]:
                            H.fail(K + 'inside-baseline-changed', 'a baseline lying wholly inside the region was not placed unchanged', lambda m_: case(m_, line=l, region=r))
                        H.claim(o['len_whole'].e > 2, K + 'short-line-placed', 'a baseline of length <= 2 was placed', lambda m_: case(m_, line=l, region=r))
                    else:
                        m = 1 if b[0] == 'piece' else b[1]
                        tk = _tok(ln.baseline)
                        j = tk.tag[1][3] if tk is not None and tk.tag[0] == 'coords-of' else None
                        if j is None:
                            H.fail(K + 'baseline-not-a-piece', 'placed baseline is not a piece returned by the kernel', lambda m_: case(m_, line=l, region=r))
                        else:
                            H.claim(z3.And(o['len'][j] > 2, *[o['len'][j] >= o['len'][i] for i in range(m)]), K + 'not-longest-piece',
                                    'the placed baseline is not the longest piece of the detected baseline inside the region (or is not longer than 2 px)',
                                    lambda m_: case(m_, line=l, region=r, piece=j))
                    if t[0] == 'multi':
                        tk = _tok(ln.polygon)
                        j = tk.tag[1][3] if tk is not None and tk.tag[0] == 'exterior-of' else None
                        if j is None:
                            H.fail(K + 'outline-not-a-piece', 'placed outline is not a piece returned by the kernel', lambda m_: case(m_, line=l, region=r))
                        else:
                            H.claim(z3.And(*[o['area'][j] >= o['area'][i] for i in range(t[1])]), K + 'not-largest-outline',
                                    'the placed outline is not the largest piece of the clipped outline', lambda m_: case(m_, line=l, region=r, piece=j))
                else:
                    # a baseline wholly inside the region and longer than 2 px is always placed (given a polygonal outline clip)
                    t = resu.get('outline')
                    if t is not None and t[0] in ('piece', 'multi'):
                        H.claim(z3.Not(z3.And(o['inside'], o['len_whole'].e > 2)), K + 'inside-line-dropped',
                                'a line whose baseline lies wholly inside the region (longer than 2 px) was not placed there', lambda m_: case(m_, line=l, region=r))
        H.witness(lambda m_: case(m_, expect=ids, placed={ln.id: [repr(_tok(ln.baseline) or 'whole'), repr(_tok(ln.polygon) or 'whole')] for reg in regions for ln in reg.lines}))
    return H.result()


class _Engine:
    def __init__(self, nlines):
        self.nlines = nlines
        self.calls = []

    def detect(self, img, rot=0):
        self.calls.append(rot)
        n = self.nlines[len(self.calls) - 1] if len(self.calls) - 1 < len(self.nlines) else 0
        p_list = [symnp.A([0, 0, 100, 0, 100, 100, 0, 100], (4, 2)), symnp.A([200, 0, 300, 0, 300, 100, 0 + 200, 100], (4, 2))]
        b_list = [symnp.A([10 + 200 * (k % 2), 10 + 20 * k, 90 + 200 * (k % 2), 10 + 20 * k], (2, 2)) for k in range(n)]
        h_list = [[5, 2] for _ in range(n)]
        t_list = [symnp.A([10 + 200 * (k % 2), 5 + 20 * k, 90 + 200 * (k % 2), 5 + 20 * k, 90 + 200 * (k % 2), 12 + 20 * k, 10 + 200 * (k % 2), 12 + 20 * k], (4, 2))
                  for k in range(n)]
        return p_list, b_list, h_list, t_list


class ConcreteKernel:
    """geometry kernel for concrete axis-aligned boxes (LayoutExtractor harness): exact for baselines inside / outside a rectangle"""

    def make_polygon(self, coords):
        return Polygon(coords, ('poly', id(coords)))

    def make_line(self, coords):
        return LineString(coords, ('line', id(coords)))

    def _bbox(self, arr):
        a = symnp.asarray(arr)
        xs = [a[i, 0] for i in range(a.shape[0])]
        ys = [a[i, 1] for i in range(a.shape[0])]
        return min(xs), min(ys), max(xs), max(ys)

    def _inside(self, line, region):
        rx0, ry0, rx1, ry1 = self._bbox(region.coords_arr)
        lx0, ly0, lx1, ly1 = self._bbox(line.coords_arr)
        return rx0 <= lx0 and lx1 <= rx1 and ry0 <= ly0 and ly1 <= ry1

    def intersects(self, line, region):
        return self._inside(line, region)

    def is_valid(self, poly):
        return True

    def intersection(self, region, other):
        if isinstance(other, LineString):
            a = symnp.asarray(other.coords_arr)
            length = ((a[1, 0] - a[0, 0]) ** 2 + (a[1, 1] - a[0, 1]) ** 2) ** 0.5
            return LineString(other.coords_arr, other.tag, length=length)
        return Polygon(other.coords_arr, other.tag, area=1.0)


def _run_extractor(H, hl, L, kern, task):
    global KERNEL
    detect_regions, detect_lines, merge_lines, multi = task['flags']
    K = 'C11:extractor:'
    ck = ConcreteKernel()
    KERNEL = ck
    hl.sg.LineString = _with_instancecheck(ck.make_line, LineString)
    hl.sg.Polygon = _with_instancecheck(ck.make_polygon, Polygon)
    pp = H.load('pero_ocr.document_ocr.page_parser')
    pp.helpers.merge_lines = lambda bl, hs: (list(bl), list(hs))
    pp.helpers.baseline_to_textline = lambda b, h: symnp.A([b[0, 0], b[0, 1] - 5, b[1, 0], b[1, 1] - 5, b[1, 0], b[1, 1] + 2, b[0, 0], b[0, 1] + 2], (4, 2))
    nl = [z3.Int('detected_lines_%d' % i) for i in range(3)]

    def case(m_, **kw):
        c = {'mode': 'extractor', 'flags': task['flags'], 'lines_per_pass': [mv(m_, S(v)) for v in nl]}
        c.update(kw)
        return c

    def body():
        counts = []
        for v in nl:
            core.assume(z3.And(v >= 0, v <= 2))
            counts.append(core.concretize(v))
        ex = object.__new__(pp.LayoutExtractor)
        ex.detect_regions, ex.detect_lines, ex.merge_lines, ex.multi_orientation = detect_regions, detect_lines, merge_lines, multi
        ex.detect_straight_lines_in_regions = ex.adjust_heights = ex.adjust_baselines = False
        ex.engine = _Engine(counts)
        pl = L.PageLayout(id='p', page_size=(100, 300))
        for r in range(2):
            reg = L.RegionLayout('old%d' % r, symnp.A([200 * r, 0, 200 * r + 100, 0, 200 * r + 100, 100, 200 * r, 100], (4, 2)))
            reg.lines.append(L.TextLine(id='old%d-l001' % r, baseline=symnp.A([200 * r + 10, 50, 200 * r + 90, 50], (2, 2)), polygon=symnp.A([200 * r + 10, 45, 200 * r + 90, 45, 200 * r + 90, 52, 200 * r + 10, 52], (4, 2)), heights=[5, 2]))
            pl.regions.append(reg)
        out = ex.process_page(None, pl)
        return out

    for p, res, exc in H.explore(body):
        if exc is not None:
            H.fail(K + 'exception:' + type(exc).__name__, 'raised %r' % (exc,), lambda m_: case(m_))
            continue
        ids = [ln.id for ln in res.lines_iterator()]
        rids = [r.id for r in res.regions]
        if len(set(rids)) != len(rids):
            H.fail(K + 'duplicate-region-ids', 'two regions share an id: %r' % (rids,), lambda m_: case(m_, ids=rids))
        if len(set(ids)) != len(ids):
            key = K + 'duplicate-line-ids:' + ''.join('1' if f else '0' for f in task['flags'])
            H.fail(key, 'two lines on the page share an id: %r' % (sorted(ids),), lambda m_: case(m_, ids=ids))
        H.witness(lambda m_: case(m_, expect=sorted(ids)))
    return H.result()


def _run_simple(H, hl, L, kern, task):
    pp = H.load('pero_ocr.document_ocr.page_parser')
    K = 'C11:simple:'

    def body():
        ex = object.__new__(pp.TextlineExtractorSimple)

        class E:
            def detect_lines(self, img, polygon):
                return ['b0', 'b1'], ['h0', 'h1'], ['t0', 't1']
        ex.engine = E()
        pl = L.PageLayout(id='p', page_size=(100, 300))
        pl.regions = [L.RegionLayout('r1', None), L.RegionLayout('r2', None)]
        return ex.process_page(None, pl)

    for p, res, exc in H.explore(body):
        if exc is not None:
            H.fail(K + 'exception:' + type(exc).__name__, 'raised %r' % (exc,), lambda m_: {'mode': 'simple'})
            continue
        ids = [ln.id for ln in res.lines_iterator()]
        if len(set(ids)) != len(ids) or len(ids) != 4:
            H.fail(K + 'duplicate-line-ids', 'line ids are not distinct: %r' % (ids,), lambda m_: {'mode': 'simple', 'ids': ids})
        H.witness(lambda m_: {'mode': 'simple', 'expect': ids})
    return H.result()


_F = 'pero_ocr/layout_engines/layout_helpers.py'


def canaries(tier):
    q = [t for t in tasks('quick') if t['mode'] == 'assign' and t['nr'] * t['nl'] <= 2]
    return [
        {'name': 'shortest instead of longest baseline piece', 'patches': [(_F, 'baseline_is = baseline_is.geoms[np.argmax(lengths)]', 'baseline_is = baseline_is.geoms[np.argmin(lengths)]')], 'tasks': q},
        {'name': 'length threshold > 2 -> > 0', 'patches': [(_F, 'isinstance(textline_is, sg.Polygon) and baseline_is.length > 2:', 'isinstance(textline_is, sg.Polygon) and baseline_is.length > 0:')], 'tasks': q},
        {'name': 'pre-filter: outer and -> or (drops baselines lying exactly on a region edge)',
         'patches': [(_F, '    candidates = np.logical_and(\n        np.logical_or(', '    candidates = np.logical_or(\n        np.logical_or(')], 'tasks': q},
        {'name': 'pre-filter inner or -> and for the vertical test (drops pairs that intersect)',
         'patches': [(_F, '    candidates = np.logical_and(\n        np.logical_or(\n            max_line[:, np.newaxis, 1] <= min_region[np.newaxis, :, 1],', '    candidates = np.logical_or(\n        np.logical_or(\n            max_line[:, np.newaxis, 1] <= min_region[np.newaxis, :, 1] + 5,')],
         'tasks': q},
        {'name': 'line id from a per-region counter that ignores the region', 'patches': [(_F, "id='{}-l{:03d}'.format(region.id, line_id+1),", "id='l{:03d}'.format(line_id+1),")],
         'tasks': [t for t in tasks('quick') if t['mode'] == 'assign' and t['nr'] == 2]},
    ]

"""C03 replay against the real decoder / bag (run under /venv/bin/python) with a toy LM whose state is the whole prefix."""
import math
from fractions import Fraction

import numpy as np

from pero_ocr.decoding import decoders as dec
from pero_ocr.decoding.bag_of_hypotheses import BagOfHypotheses


def _f(x):
    return float(Fraction(x)) if isinstance(x, str) else float(x)


class HS:
    def __init__(self, states):
        self.states = list(states)

    def __getitem__(self, idx):
        idx = np.atleast_1d(np.asarray(idx))
        return HS([self.states[int(i)] for i in idx])

    def __setitem__(self, idx, other):
        idx = np.atleast_1d(np.asarray(idx))
        for i, s in zip(idx, other.states):
            self.states[int(i)] = s


class TableLM:
    """scores from a table (missing entries: a deterministic function of prefix and character)"""

    def __init__(self, nchars, start, table):
        self.nchars, self.start, self.table = nchars, start, table

    def _get(self, name):
        if name in self.table:
            return _f(self.table[name])
        return -1.0 - (hash(name) % 997) / 400.0

    def score(self, prefix, c):
        return self._get('lm[%s|%s>%d]' % (self.start, ','.join(map(str, prefix)), c))

    def eos(self, prefix):
        return self._get('lm[%s|%s>eos]' % (self.start, ','.join(map(str, prefix))))

    def initial_h(self, n):
        return HS([()])

    def log_probs(self, h):
        return np.array([[self.score(st, c) for c in range(self.nchars)] for st in h.states])

    def advance_h0(self, x, h0):
        return HS([st + (int(c),) for st, c in zip(h0.states, x)])

    def eos_scores(self, h):
        return np.array([self.eos(st) for st in h.states])


def _run(case):
    P = np.array([[_f(x) for x in row] for row in case['P']])
    C = P.shape[1]
    letters = [chr(97 + i) for i in range(C - 1)] + [dec.BLANK_SYMBOL]
    lm = TableLM(C - 1, 'given' if case['init'] else 'initial', case.get('lm', {}))
    scale, bonus = _f(case['lm_scale']), _f(case['bonus'])
    d = dec.CTCPrefixLogRawNumpyDecoder(letters, int(case['k']), lm=lm, lm_scale=scale, insertion_bonus=bonus,
                                        relevant_logits_selector=lambda l: (np.arange(len(l)),))
    kw = {'init_h': HS([()])} if case['init'] else {}
    with np.errstate(all='ignore'):
        boh, h = d(np.log(P), model_eos=case['eos'], return_h=True, **kw)
    bad = []
    if case['init'] and kw['init_h'].states != [()]:
        bad.append('the supplied start state was overwritten in place: %r' % (kw['init_h'].states,))
    hyps = list(boh)
    if boh.lm_weight != scale:
        bad.append('the bag archives LM scale %r, the decoder was built with %r' % (boh.lm_weight, scale))
    for hy in hyps:
        pre = tuple(letters.index(ch) for ch in hy.transcript)
        exp = sum(lm.score(pre[:i], c) + bonus for i, c in enumerate(pre)) + (lm.eos(pre) if case['eos'] else 0.0)
        if abs(hy.lm_sc - exp) > 1e-9 * max(1.0, abs(exp)):
            bad.append('LM score of %r is %r, the model gives %r' % (hy.transcript, hy.lm_sc, exp))
    tot = [hy.vis_sc + scale * hy.lm_sc for hy in hyps]
    st = h.states[0]
    idx = [i for i, hy in enumerate(hyps) if tuple(letters.index(ch) for ch in hy.transcript) == st]
    if len(idx) != 1:
        bad.append('returned state %r belongs to no hypothesis' % (st,))
    elif tot[idx[0]] < max(tot) - 1e-9:
        bad.append('returned state %r is not that of the best hypothesis (totals %r)' % (st, tot))
    return hyps, st, bad


def _bag(case):
    bag = BagOfHypotheses(lm_weight=_f(case['lm_weight']))
    for i, (v, l) in enumerate(zip(case['vis'], case['lm'])):
        bag.add('t%d' % i, _f(v), None if l is None else _f(l))
    best = bag.best_hyp()
    tot = bag.total_scores()
    b = int(best[1:])
    bad = []
    if tot[b] < max(tot) - 1e-9:
        bad.append('best_hyp %s has total %r < max %r' % (best, tot[b], max(tot)))
    post = bag.posteriors()
    if abs(math.exp(post[b]) - bag.confidence()) > 1e-9 and not bad:
        bad.append('best_hyp is not the hypothesis whose posterior is the confidence')
    return best, bad


def replay(case):
    try:
        if case['mode'] == 'bag':
            best, bad = _bag(case)
        else:
            hyps, st, bad = _run(case)
    except Exception as e:
        return {'reproduced': True, 'detail': 'raised %r' % (e,)}
    return {'reproduced': bool(bad), 'detail': '; '.join(bad[:3]) or 'ok'}


def check_witness(w):
    if w['mode'] == 'bag':
        best, bad = _bag(w)
        return {'match': not bad and best == w['expect'], 'got': best}
    hyps, st, bad = _run(w)
    exp = {t: v for t, v in w['expect']['hyps']}
    got = {hy.transcript: hy.lm_sc for hy in hyps}
    ok = not bad and set(got) == set(exp) and all(abs(got[t] - _f(exp[t])) <= 1e-9 * max(1.0, abs(got[t])) for t in exp) \
        and list(st) == list(w['expect']['state'])
    return {'match': ok, 'got': repr(got), 'bad': bad[:2], 'state': list(st)}

"""C11 replay.  'assign': the real assign_lines_to_regions / mask_textline_by_region (real numpy) with the GEOS kernel
scripted by the solver's choices (the kernel is the environment).  'extractor' / 'simple': the real LayoutExtractor /
TextlineExtractorSimple with a stub detector and the real shapely."""
import types
import warnings
from fractions import Fraction

import numpy as np

from pero_ocr.core.layout import PageLayout, RegionLayout, TextLine
from pero_ocr.layout_engines import layout_helpers as hl
from pero_ocr.document_ocr import page_parser as pp


def _f(x):
    return float(Fraction(x)) if isinstance(x, str) else float(x)


class G:
    pass


class Tag:
    def __init__(self, *t):
        self.tag = t


def _piece(x):
    try:
        v = x.item() if isinstance(x, np.ndarray) else x
        return int(v.tag[1][3]) if isinstance(v, Tag) else None
    except Exception:
        return None


class Line(G):
    def __init__(self, coords, k, tag=None, length=None):
        self.coords, self.k, self.tag, self.length = coords, k, tag, length

    def intersects(self, region):
        self.k.calls.add((self.idx, region.root().idx))
        o = self.k.out(self.idx, region.root().idx)
        if region.hull_of is not None:
            return bool(o.get('intersects_hull', o['intersects']))
        return bool(o['intersects'])


class Poly(G):
    def __init__(self, coords, k, tag=None, area=None, hull_of=None):
        self.coords_, self.k, self.tag, self.area, self.hull_of = coords, k, tag, area, hull_of
        self.exterior = types.SimpleNamespace(coords=coords if coords is not None else Tag(*tag))

    def root(self):
        p = self
        while p.hull_of is not None:
            p = p.hull_of
        return p

    @property
    def is_valid(self):
        if self.hull_of is not None:
            return True
        return self.k.valid(self)

    @property
    def convex_hull(self):
        h = Poly(None, self.k, ('hull', self.tag), hull_of=self)
        return h

    def intersection(self, other):
        return self.k.intersection(self, other)


class MLine(G):
    def __init__(self, parts):
        self.geoms = parts


class MPoly(G):
    def __init__(self, parts):
        self.geoms = parts


class Other(G):
    pass


class Kernel:
    def __init__(self, case):
        self.case = case
        self.reg_ids, self.line_ids, self.poly_ids = {}, {}, {}
        self.calls = set()

    def out(self, l, r):
        return self.case['kernel']['%d_%d' % (l, r)]

    def make_poly(self, coords):
        p = Poly(coords, self, ('poly', id(coords)))
        p.idx = self.reg_ids.get(id(coords), self.poly_ids.get(id(coords)))
        p.is_region = id(coords) in self.reg_ids
        return p

    def make_line(self, coords):
        l = Line(coords, self, ('line', id(coords)))
        l.idx = self.line_ids[id(coords)]
        return l

    def valid(self, poly):
        if poly.is_region:
            return bool(self.case['valid_region'][poly.idx])
        return bool(self.case['valid_textline'][poly.idx])

    def intersection(self, region, other):
        ri = region.root().idx
        if isinstance(other, Line):
            o = self.out(other.idx, ri)
            b = o['base']
            if b[0] == 'whole':
                return Line(other.coords, self, other.tag, length=_f(o['len_whole']))
            if b[0] == 'piece':
                return Line(Tag('coords-of', ('piece', other.idx, ri, 0)), self, None, length=_f(o['len'][0]))
            if b[0] == 'multi':
                return MLine([Line(Tag('coords-of', ('piece', other.idx, ri, j)), self, None, length=_f(o['len'][j])) for j in range(b[1])])
            return Other()
        src = other.root()
        o = self.out(src.idx, ri)
        t = o['outline']
        if t[0] == 'piece':
            return Poly(None, self, ('exterior-of', ('clip', src.idx, ri, 0)), area=_f(o['area'][0]))
        if t[0] == 'multi':
            return MPoly([Poly(None, self, ('exterior-of', ('clip', src.idx, ri, j)), area=_f(o['area'][j])) for j in range(t[1])])
        return Other()


def _meta(cls, factory):
    class M(type):
        def __instancecheck__(c, x):
            return isinstance(x, cls)

        def __call__(c, *a, **k):
            return factory(*a, **k)
    return M(cls.__name__, (), {})


def _assign(case):
    nr, nl = case['nr'], case['nl']
    k = Kernel(case)
    regions, b_list, h_list, t_list = [], [], [], []
    for r in range(nr):
        x0, y0, x1, y1 = [_f(v) for v in case['regions'][r]]
        poly = np.array([[x0, y0], [x1, y0], [x1, y1], [x0, y1]])
        k.reg_ids[id(poly)] = r
        regions.append(RegionLayout('r%03d' % r, poly))
    for l in range(nl):
        bx0, by0, bx1, by1 = [_f(v) for v in case['baselines'][l]]
        base = np.array([[bx0, by0], [bx1, by1]])
        outline = np.array([[l, 0], [l, 1], [l, 2], [l, 3]], dtype=float)
        k.line_ids[id(base)] = l
        k.poly_ids[id(outline)] = l
        b_list.append(base)
        h_list.append('heights_%d' % l)
        t_list.append(outline)
    saved = hl.sg
    fake = types.SimpleNamespace(Polygon=_meta(Poly, k.make_poly), LineString=_meta(Line, k.make_line), MultiPolygon=MPoly, MultiLineString=MLine)
    hl.sg = fake
    try:
        with warnings.catch_warnings():
            warnings.simplefilter('ignore')
            import contextlib, io
            with contextlib.redirect_stdout(io.StringIO()):
                out = hl.assign_lines_to_regions(b_list, h_list, t_list, regions)
    finally:
        hl.sg = saved
    bad = []
    ids = [ln.id for reg in out for ln in reg.lines]
    if len(set(ids)) != len(ids):
        bad.append('duplicate ids %r' % (ids,))
    for l in range(nl):
        for r in range(nr):
            o = k.out(l, r)
            placed = [ln for ln in out[r].lines if ln.id == 'r%03d-l%03d' % (r, l + 1)]
            b, t = o['base'], o['outline']
            if (l, r) not in k.calls:
                # the bounding-box pre-filter dropped the pair: a baseline lying wholly inside the region can then only be a single point
                x0, y0, x1, y1 = [_f(v) for v in case['regions'][r]]
                pts = b_list[l]
                if all(x0 <= px <= x1 and y0 <= py <= y1 for px, py in pts) and not (pts[0] == pts[1]).all():
                    bad.append('the bounding-box pre-filter dropped line %d whose baseline %r lies wholly inside region %d' % (l, pts.tolist(), r))
                continue
            if placed:
                ln = placed[0]
                if not o['intersects']:
                    bad.append('line %d placed in region %d without touching it' % (l, r))
                elif not b or b[0] in ('empty', 'other') or not t or t[0] == 'other':
                    bad.append('line %d placed in region %d with wrong kinds %r %r' % (l, r, b, t))
                elif b[0] == 'whole':
                    if ln.baseline is not b_list[l] and not np.array_equal(ln.baseline, b_list[l]):
                        bad.append('inside baseline changed')
                    if _f(o['len_whole']) <= 2:
                        bad.append('baseline of length <= 2 placed')
                else:
                    m = 1 if b[0] == 'piece' else b[1]
                    lens = [_f(x) for x in o['len'][:m]]
                    j = _piece(ln.baseline)
                    if j is None or lens[j] < max(lens) or lens[j] <= 2:
                        bad.append('line %d in region %d: placed piece %r is not the longest (> 2) of %r' % (l, r, j, lens))
                if t and t[0] == 'multi':
                    areas = [_f(x) for x in o['area'][:t[1]]]
                    j = _piece(ln.polygon)
                    if j is None or areas[j] < max(areas):
                        bad.append('line %d in region %d: outline piece %r is not the largest of %r' % (l, r, j, areas))
            else:
                if o['intersects'] and o['inside'] and o['len_whole'] is not None and _f(o['len_whole']) > 2 and t and t[0] in ('piece', 'multi'):
                    bad.append('inside line %d (length %s) not placed in region %d' % (l, o['len_whole'], r))
    return ids, bad


class Engine:
    def __init__(self, counts):
        self.counts, self.calls = counts, 0

    def detect(self, img, rot=0):
        n = self.counts[self.calls] if self.calls < len(self.counts) else 0
        self.calls += 1
        p_list = [np.array([[0, 0], [100, 0], [100, 100], [0, 100]]), np.array([[200, 0], [300, 0], [300, 100], [200, 100]])]
        b_list = [np.array([[10 + 200 * (k % 2), 10 + 20 * k], [90 + 200 * (k % 2), 10 + 20 * k]]) for k in range(n)]
        h_list = [[5, 2] for _ in range(n)]
        t_list = [np.array([[10 + 200 * (k % 2), 5 + 20 * k], [90 + 200 * (k % 2), 5 + 20 * k], [90 + 200 * (k % 2), 12 + 20 * k], [10 + 200 * (k % 2), 12 + 20 * k]])
                  for k in range(n)]
        return p_list, b_list, h_list, t_list


def _extractor(case):
    dr, dl, ml, mo = case['flags']
    ex = object.__new__(pp.LayoutExtractor)
    ex.detect_regions, ex.detect_lines, ex.merge_lines, ex.multi_orientation = dr, dl, ml, mo
    ex.detect_straight_lines_in_regions = ex.adjust_heights = ex.adjust_baselines = False
    ex.engine = Engine([int(_f(x)) for x in case['lines_per_pass']])
    saved = (pp.helpers.merge_lines, pp.helpers.baseline_to_textline)
    pp.helpers.merge_lines = lambda bl, hs: (list(bl), list(hs))
    pp.helpers.baseline_to_textline = lambda b, h: np.array([[b[0, 0], b[0, 1] - 5], [b[1, 0], b[1, 1] - 5], [b[1, 0], b[1, 1] + 2], [b[0, 0], b[0, 1] + 2]])
    try:
        pl = PageLayout(id='p', page_size=(100, 300))
        for r in range(2):
            reg = RegionLayout('old%d' % r, np.array([[200 * r, 0], [200 * r + 100, 0], [200 * r + 100, 100], [200 * r, 100]]))
            reg.lines.append(TextLine(id='old%d-l001' % r, baseline=np.array([[200 * r + 10, 50], [200 * r + 90, 50]]),
                                      polygon=np.array([[200 * r + 10, 45], [200 * r + 90, 45], [200 * r + 90, 52], [200 * r + 10, 52]]), heights=[5, 2]))
            pl.regions.append(reg)
        with warnings.catch_warnings():
            warnings.simplefilter('ignore')
            out = ex.process_page(None, pl)
    finally:
        pp.helpers.merge_lines, pp.helpers.baseline_to_textline = saved
    ids = sorted(ln.id for ln in out.lines_iterator())
    rids = [r.id for r in out.regions]
    bad = []
    if len(set(ids)) != len(ids):
        bad.append('duplicate line ids %r' % (ids,))
    if len(set(rids)) != len(rids):
        bad.append('duplicate region ids %r' % (rids,))
    return ids, bad


def _simple(case):
    ex = object.__new__(pp.TextlineExtractorSimple)

    class E:
        def detect_lines(self, img, polygon):
            return ['b0', 'b1'], ['h0', 'h1'], ['t0', 't1']
    ex.engine = E()
    pl = PageLayout(id='p', page_size=(100, 300))
    pl.regions = [RegionLayout('r1', None), RegionLayout('r2', None)]
    out = ex.process_page(None, pl)
    ids = [ln.id for ln in out.lines_iterator()]
    return ids, (['duplicate ids %r' % (ids,)] if len(set(ids)) != len(ids) else [])


def _eval(case):
    return {'assign': _assign, 'extractor': _extractor, 'simple': _simple}[case['mode']](case)


def replay(case):
    try:
        ids, bad = _eval(case)
    except Exception as e:
        return {'reproduced': True, 'detail': 'raised %r' % (e,)}
    return {'reproduced': bool(bad), 'detail': '; '.join(bad[:3]) or 'ok %r' % (ids,)}


def check_witness(w):
    ids, bad = _eval(w)
    # a witness compares the prediction of the symbolic run with the real code; whether the property holds on it is the business of
    # the claims (the extractor's duplicate ids are a known finding and still a correct prediction)
    return {'match': sorted(ids) == sorted(w['expect']), 'got': ids, 'bad': bad[:2]}

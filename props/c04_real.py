"""C04 replay against the real greedy decoders (torch + numpy)."""
import itertools
from fractions import Fraction

import numpy as np
import torch

from pero_ocr.ocr_engine.pytorch_ocr_engine import greedy_decode_ctc
from pero_ocr.decoding import decoders as dec
from pero_ocr.char_confidences import greedy_filtration


def _f(x):
    return float(Fraction(x)) if isinstance(x, str) else float(x)


def collapse(path, blank):
    out, prev = [], None
    for s in path:
        if s != prev and s != blank:
            out.append(s)
        prev = s
    return out


def _run(case):
    sc = np.array([[[_f(x) for x in row] for row in line] for line in case['scores']], dtype=np.float64)   # N, C, T
    N, C, T = sc.shape
    chars = [chr(97 + i) for i in range(C - 1)]
    am = sc.argmax(axis=1)
    exp = [''.join(chars[s] for s in collapse(list(am[n]), C - 1)) for n in range(N)]
    out = greedy_decode_ctc(torch.from_numpy(sc.copy()), chars)
    out2, out3 = [], []
    for n in range(N):
        lp = sc[n].T
        from scipy.special import logsumexp
        lpn = lp - logsumexp(lp, axis=1, keepdims=True)
        out2.append(dec.GreedyDecoder(chars + [dec.BLANK_SYMBOL])(lpn).best_hyp())
        out3.append(greedy_filtration(lp, chars)[0])
    bad = []
    for name, o in (('greedy_decode_ctc', out), ('GreedyDecoder', out2), ('greedy_filtration', out3)):
        if list(o) != exp:
            bad.append('%s gives %r, collapse of the arg-max path %r is %r' % (name, list(o), am.tolist(), exp))
    return exp, bad


def replay(case):
    try:
        exp, bad = _run(case)
    except Exception as e:
        return {'reproduced': True, 'detail': 'raised %r' % (e,)}
    return {'reproduced': bool(bad), 'detail': '; '.join(bad) or 'ok'}


def check_witness(w):
    exp, bad = _run(w)
    return {'match': not bad and exp == w['expect'], 'got': exp, 'bad': bad}

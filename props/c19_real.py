"""C19 replay against the real merge_ocr_results (run under /venv/bin/python)."""
import sys
from fractions import Fraction

import numpy as np

from pero_ocr.core import layout
from user_scripts import merge_ocr_results as mod


def _f(x):
    return float(Fraction(x)) if isinstance(x, str) else float(x)


def _build(E, nl, lens, charsets):
    layouts = []
    for e in range(E):
        pl = layout.PageLayout(id='page', page_size=(100, 100))
        regs = [layout.RegionLayout('r0', 'poly_r0')]
        if nl > 1:
            regs.append(layout.RegionLayout('r1', 'poly_r1'))
        for li in range(nl):
            n = lens[e * nl + li]
            chars = charsets[e]
            tr = None if n == -1 else ''.join(chars[(li + k + e) % len(chars)] for k in range(n))
            line = layout.TextLine(id='l%d' % li, baseline='base_%d' % li, polygon='poly_%d' % li, heights='h_%d' % li,
                                   transcription=tr, logits='logits_%d_%d' % (e, li), characters=chars,
                                   logit_coords='coords_%d_%d' % (e, li), transcription_confidence='oldconf_%d_%d' % (e, li),
                                   index=li)
            regs[0 if li == 0 else len(regs) - 1].lines.append(line)
        pl.regions = regs
        layouts.append(pl)
    return layouts


def _run(case):
    E, nl, lens = case['E'], case['nl'], case['lens']
    charsets = [['a', 'b', 'c'] if e % 2 == 0 else ['c', 'a', 'b', 'd'] for e in range(E)]
    conf = {k: [_f(x) for x in v] for k, v in case['conf'].items()}
    fail = case['fail']

    def glc(line, c_idx):
        e, li = line.logits.split('_')[1:3]
        if fail['%s_%s' % (e, li)]:
            raise ValueError('stub')
        return np.array(conf['%s_%s' % (e, li)])
    real = mod.get_line_confidence
    mod.get_line_confidence = glc
    try:
        layouts = _build(E, nl, lens, charsets)
        mod.merge_layouts(layouts)
    finally:
        mod.get_line_confidence = real
    merged = list(layouts[0].lines_iterator())
    # oracle
    bad = []
    fresh = _build(E, nl, lens, charsets)
    for li, ml in enumerate(merged):
        means = []
        for e in range(E):
            n = lens[e * nl + li]
            if n <= 0:
                means.append(-10.0)
            elif fail['%d_%d' % (e, li)]:
                means.append(0.5)
            else:
                means.append(float(np.mean(conf['%d_%d' % (e, li)])))
        mx = max(means)
        if mx > 0:
            w = means.index(mx)
            src = list(fresh[w].lines_iterator())[li]
            if (ml.transcription, ml.logits, ml.characters) != (src.transcription, src.logits, src.characters):
                bad.append('line %d: expected engine %d (means %r), got %s / %r' % (li, w, means, ml.logits, ml.transcription))
            elif isinstance(ml.transcription_confidence, str) or abs(ml.transcription_confidence - mx) > 1e-9:
                bad.append('line %d: confidence %r != %r' % (li, ml.transcription_confidence, mx))
        else:
            src = list(fresh[0].lines_iterator())[li]
            if (ml.transcription, ml.logits, ml.characters) != (src.transcription, src.logits, src.characters):
                bad.append('line %d: nobody confident but line changed' % li)
        if (ml.id, ml.baseline, ml.polygon, ml.heights, ml.index) != ('l%d' % li, 'base_%d' % li, 'poly_%d' % li, 'h_%d' % li, li):
            bad.append('line %d: id/geometry changed' % li)
    return merged, bad


def replay(case):
    if case.get('mode') == 'ids':
        ls = _build(2, 2, [1, 1, 1, 1], [['a', 'b', 'c'], ['a', 'b', 'c']])
        list(ls[1].lines_iterator())[1].id = 'other'
        real = mod.get_line_confidence
        mod.get_line_confidence = lambda line, c_idx: np.array([0.5] * len(c_idx))     # the lines before the mismatching one are merged first
        try:
            mod.merge_layouts(ls)
        except SystemExit:
            return {'reproduced': False, 'detail': 'exit as expected'}
        finally:
            mod.get_line_confidence = real
        return {'reproduced': True, 'detail': 'merged layouts with different ids'}
    if case.get('mode') == 'self':
        return {'reproduced': _self(case)[1], 'detail': 'self-merge'}
    try:
        merged, bad = _run(case)
    except Exception as e:
        return {'reproduced': True, 'detail': 'raised %r' % (e,)}
    return {'reproduced': bool(bad), 'detail': '; '.join(bad) or 'ok'}


def _self(case):
    nl = case['nl']
    conf = {k: [_f(x) for x in v] for k, v in case['conf'].items()}
    real = mod.get_line_confidence
    mod.get_line_confidence = lambda line, c_idx: np.array(conf[line.logits.split('_')[2]])
    try:
        pl = _build(1, nl, [2] * nl, [['a', 'b', 'c']])[0]
        snap = [(l.id, l.transcription, l.logits, tuple(l.characters), l.logit_coords, l.baseline) for l in pl.lines_iterator()]
        mod.merge_layouts([pl, pl])
        now = [(l.id, l.transcription, l.logits, tuple(l.characters), l.logit_coords, l.baseline) for l in pl.lines_iterator()]
    finally:
        mod.get_line_confidence = real
    return now, now != snap


def check_witness(w):
    if w['mode'] == 'ids':
        return {'match': not replay(w)['reproduced']}
    if w['mode'] == 'self':
        now, changed = _self(w)
        return {'match': (not changed) and [list(map(str, x[:3])) for x in now] == w['expect']}
    merged, bad = _run(w)
    ok = not bad
    for ml, (lg, cf) in zip(merged, w['expect']):
        if ml.logits != lg:
            ok = False
        if cf is not None and (isinstance(ml.transcription_confidence, str) or abs(ml.transcription_confidence - _f(cf)) > 1e-9):
            ok = False
        if cf is None and not isinstance(ml.transcription_confidence, str):
            ok = False
    return {'match': ok, 'bad': bad, 'got': [[l.logits, repr(l.transcription_confidence)] for l in merged]}

"""C13 -- edit distance, alignments and error summaries are exact and consistent.

Symbolic execution of pero_ocr/sequence_alignment.py and error_summary.py over
sequences of symbolic integers (unbounded alphabet: every equality pattern)
and symbolic operation costs; the oracle is the textbook edit-distance DP
built directly as a z3 term.
"""
import itertools
import z3

from symx import core
from symx import symnp
from symx.core import S, SB
from symx.harness import Harness, mv

ID = 'C13'

META = {
    'functions': [
        'pero_ocr/sequence_alignment.py:levenshtein_distance',
        'pero_ocr/sequence_alignment.py:levenshtein_alignment',
        'pero_ocr/sequence_alignment.py:levenshtein_alignment_path',
        'pero_ocr/sequence_alignment.py:levenshtein_distance_substring',
        'pero_ocr/sequence_alignment.py:levenshtein_alignment_substring',
        'pero_ocr/sequence_alignment.py:edit_stats_for_alignment',
        'pero_ocr/error_summary.py:ErrorsSummary.from_lists',
        'pero_ocr/error_summary.py:ErrorsSummary.aggregate',
        'pero_ocr/error_summary.py:get_match_type',
        'pero_ocr/error_summary.py:BoundaryErrorsSummary',
    ],
    'bounds': {
        'quick': 'sequence lengths 0..3 x 0..3 (all pairs), symbols = unconstrained integers (every equality '
                 'pattern), costs sub/ins/del symbolic in [1,4] for the plain variants, unit costs for the '
                 'substring variants; aggregate over 1..3 summaries with symbolic integer fields',
        'thorough': 'lengths 0..4 x 0..4 for all variants (plus 5 x 0..3 and 0..3 x 5 for levenshtein_distance), same symbol/cost space',
    },
    'assumptions': [
        'symbols are modelled as mathematical integers compared by ==/!= only',
        'numpy is replaced by the symnp facade (validated by witness replays against real numpy)',
    ],
    'outside': [
        'sequence lengths beyond the bound',
        "heterogeneous python lists such as ['a', 1] (numpy dtype coercion to str) -- not visible to an integer model",
        'operation costs outside 1..4 and non-integer costs',
    ],
    'stubs': ['numpy -> symx.symnp (exact integer semantics)'],
}


def _lens(n):
    return [(a, b) for a in range(n + 1) for b in range(n + 1)]


def tasks(tier):
    n = 3 if tier == 'quick' else 4
    ts = []
    for fn in ('dist', 'align', 'path', 'sdist', 'salign', 'summary'):
        for (a, b) in _lens(n):
            ts.append({'fn': fn, 'n': a, 'm': b})
    if tier == 'thorough':
        for (a, b) in _lens(5):
            if (a == 5 or b == 5) and min(a, b) <= 3:
                ts.append({'fn': 'dist', 'n': a, 'm': b})
    for k in (1, 2, 3):
        ts.append({'fn': 'aggregate', 'k': k})
    # sequences mixing strings and integers: every kind pattern for lengths <= 2 (codes symbolic)
    for n_, m_ in ((1, 1), (2, 1), (1, 2), (2, 2)):
        for kinds in itertools.product('si', repeat=n_ + m_):
            ts.append({'fn': 'mixed', 'n': n_, 'm': m_, 'kinds': ''.join(kinds)})
    # big tasks first
    ts.sort(key=lambda t: -(t.get('n', 0) + 1) * (t.get('m', 0) + 1))
    return ts


# -- oracle -------------------------------------------------------------------

def ref_dp(src, tgt, sub, ins, dele):
    """textbook DP as z3 terms: cost of turning src into tgt"""
    n, m = len(src), len(tgt)
    D = [[None] * (m + 1) for _ in range(n + 1)]
    for j in range(m + 1):
        D[0][j] = ins * j
    for i in range(1, n + 1):
        D[i][0] = dele * i
        for j in range(1, m + 1):
            a = D[i - 1][j] + dele
            b = D[i][j - 1] + ins
            c = D[i - 1][j - 1] + z3.If(src[i - 1] != tgt[j - 1], sub, z3.IntVal(0))
            mn = z3.If(a <= b, a, b)
            D[i][j] = z3.If(mn <= c, mn, c)
    return D[n][m]


def zmin(xs):
    m = xs[0]
    for x in xs[1:]:
        m = z3.If(x < m, x, m)
    return m


def ref_substring(long_, short):
    """min over all substrings of long_ of the unit-cost distance to short"""
    one = z3.IntVal(1)
    cands = []
    for a in range(len(long_) + 1):
        for b in range(a, len(long_) + 1):
            cands.append(ref_dp(long_[a:b], short, one, one, one))
    return zmin(cands)


def pair_cost(a, b, sub, ins, dele):
    """cost of one alignment pair (source symbol or None, target symbol or None)"""
    if a is None and b is None:
        return None
    if a is None:
        return ins
    if b is None:
        return dele
    return z3.If(a.e != b.e, sub, z3.IntVal(0))


def _same(xs, ys):
    """z3 Bool: the two lists of S are element-wise equal"""
    if len(xs) != len(ys):
        return False
    conj = [x.e == y.e for x, y in zip(xs, ys)]
    return z3.And(*conj) if conj else True


class Sym:
    """a sequence element that is either a Python str or a Python int (kind concrete, identity symbolic)"""

    def __init__(self, kind, code, coerced=False):
        self.kind, self.code, self.coerced = kind, code, coerced

    def __eq__(self, o):
        if not isinstance(o, Sym):
            return False
        if self.kind != o.kind:
            return False          # 'x' == 1 is False in Python and element-wise in numpy
        if self.coerced != o.coerced:
            # str(int) against an original string: equal only if the string is that numeral -- a different (symbolic) question;
            # kept distinct here: the harness assumes original strings are not numerals
            return False
        return core.SB(self.code == o.code)

    def __ne__(self, o):
        r = self.__eq__(o)
        return core.b_not(r)

    def __hash__(self):
        return 5


class _NpCoerce:
    """numpy facade with numpy's array-construction rule for mixed lists: str + int elements are all converted to str"""

    def __getattr__(self, name):
        return getattr(symnp, name)

    def array(self, x, dtype=None, copy=True):
        if isinstance(x, (list, tuple)) and x and all(isinstance(v, Sym) for v in x):
            kinds = {v.kind for v in x}
            if dtype is None and kinds == {'s', 'i'}:
                x = [v if v.kind == 's' else Sym('s', v.code, coerced=True) for v in x]
            return symnp.A(list(x), (len(x),))
        return symnp.array(x, dtype, copy)


def _run_mixed(H, sa, task):
    n, m, kinds = task['n'], task['m'], task['kinds']
    sa.np = _NpCoerce()
    src = [Sym(kinds[i], z3.Int('s%d' % i)) for i in range(n)]
    tgt = [Sym(kinds[n + j], z3.Int('t%d' % j)) for j in range(m)]

    def case(m_, **kw):
        c = {'fn': 'mixed', 'kinds': kinds, 'n': n, 'm': m, 'source': [mv(m_, S(x.code)) for x in src], 'target': [mv(m_, S(x.code)) for x in tgt]}
        c.update(kw)
        return c

    def eqz(a, b):
        return z3.And(a.code == b.code) if a.kind == b.kind else z3.BoolVal(False)
    D = [[None] * (m + 1) for _ in range(n + 1)]
    for j in range(m + 1):
        D[0][j] = z3.IntVal(j)
    for i in range(1, n + 1):
        D[i][0] = z3.IntVal(i)
        for j in range(1, m + 1):
            a, b = D[i - 1][j] + 1, D[i][j - 1] + 1
            c = D[i - 1][j - 1] + z3.If(eqz(src[i - 1], tgt[j - 1]), 0, 1)
            mn = z3.If(a <= b, a, b)
            D[i][j] = z3.If(mn <= c, mn, c)
    ref = D[n][m]

    def body():
        d = sa.levenshtein_distance(list(src), list(tgt))
        al = sa.levenshtein_alignment(list(src), list(tgt))
        return d, al

    for p, res, exc in H.explore(body):
        if exc is not None:
            H.fail('C13:mixed:exception:' + type(exc).__name__, 'raised %r' % (exc,), lambda m_: case(m_))
            continue
        d, al = res
        H.claim(core.lift(d) == ref, 'C13:mixed:not-minimal', 'for sequences mixing strings and integers the distance differs from the true minimum',
                lambda m_: case(m_, got=mv(m_, d), ref=core.model_value(m_, ref)))
        proj_t = [b for a, b in al if b is not None]
        if len(proj_t) != m or any(x is not y and (x.kind != y.kind or x.coerced) for x, y in zip(proj_t, tgt)):
            H.fail('C13:mixed:projection', 'the alignment does not reproduce the target sequence (integers come back as strings)', lambda m_: case(m_))
        H.witness(lambda m_: case(m_, expect=mv(m_, d)))
    return H.result()


def run_task(task, patches=None):
    H = Harness(patches)
    sa = H.load('pero_ocr.sequence_alignment')
    fn = task['fn']
    if fn == 'mixed':
        return _run_mixed(H, sa, task)
    if fn == 'aggregate':
        return _run_aggregate(H, task)
    if fn == 'summary':
        return _run_summary(H, task)
    n, m = task['n'], task['m']
    src = [S(z3.Int('s%d' % i)) for i in range(n)]
    tgt = [S(z3.Int('t%d' % i)) for i in range(m)]
    unit = fn in ('sdist', 'salign')
    if unit:
        sub = ins = dele = 1
        zsub = zins = zdel = z3.IntVal(1)
    else:
        sub, ins, dele = S(z3.Int('sub')), S(z3.Int('ins')), S(z3.Int('del'))
        zsub, zins, zdel = sub.e, ins.e, dele.e

    def case(m_, **kw):
        c = {'fn': fn, 'source': mv(m_, src), 'target': mv(m_, tgt)}
        if not unit:
            c.update(sub=mv(m_, sub), ins=mv(m_, ins), dele=mv(m_, dele))
        c.update(kw)
        return c

    def body():
        if not unit:
            for c in (sub, ins, dele):
                core.assume(z3.And(c.e >= 1, c.e <= 4))
        if fn == 'dist':
            return sa.levenshtein_distance(list(src), list(tgt), sub, ins, dele)
        if fn == 'align':
            return sa.levenshtein_alignment(list(src), list(tgt), sub, ins, dele)
        if fn == 'path':
            return sa.levenshtein_alignment_path(list(src), list(tgt), sub, ins, dele)
        if fn == 'sdist':
            return sa.levenshtein_distance_substring(list(src), list(tgt))
        if fn == 'salign':
            return sa.levenshtein_alignment_substring(list(src), list(tgt))
        raise ValueError(fn)

    es = [x.e for x in src]
    et = [x.e for x in tgt]
    if unit:
        long_, short = (es, et) if len(et) <= len(es) else (et, es)
        ref = ref_substring(long_, short)
    else:
        ref = ref_dp(es, et, zsub, zins, zdel)

    for p, res, exc in H.explore(body):
        if exc is not None:
            H.fail('C13:%s:exception:%s' % (fn, type(exc).__name__), 'raised %r' % (exc,), lambda m_: case(m_))
            continue
        if fn in ('dist', 'sdist'):
            if isinstance(res, float):   # e.g. inf
                H.fail('C13:%s:non-finite' % fn, 'returned %r' % res, lambda m_: case(m_))
                continue
            r = core.lift(res)
            H.claim(r == ref, 'C13:%s:not-minimal' % fn, 'distance differs from the true minimum',
                    lambda m_: case(m_, got=mv(m_, res), ref=core.model_value(m_, ref)))
            H.witness(lambda m_: case(m_, expect=mv(m_, res)))
            continue
        # alignments: normalise to list of (src or None, tgt or None)
        if fn == 'path':
            pairs = []
            si = ti = 0
            bad = False
            for w in res:
                if w == 0:
                    if si >= n or ti >= m:
                        bad = True
                        break
                    pairs.append((src[si], tgt[ti]))
                    si += 1
                    ti += 1
                elif w > 0:
                    if si >= n:
                        bad = True
                        break
                    pairs.append((src[si], None))
                    si += 1
                else:
                    if ti >= m:
                        bad = True
                        break
                    pairs.append((None, tgt[ti]))
                    ti += 1
            if bad or si != n or ti != m:
                H.fail('C13:path:projection', 'path does not consume both inputs exactly',
                       lambda m_: case(m_, got=[float(x) for x in res]))
                continue
            expect = [float(x) for x in res]
        else:
            pairs = list(res)
            expect = None
        if any(a is None and b is None for a, b in pairs):
            H.fail('C13:%s:none-none' % fn, '(None, None) pair in alignment', lambda m_: case(m_))
            continue
        pa = [a for a, b in pairs if a is not None]
        pb = [b for a, b in pairs if b is not None]
        ok = H.claim(core.b_and(_same(pa, src), _same(pb, tgt)), 'C13:%s:projection' % fn,
                     'alignment does not project back to its inputs',
                     lambda m_: case(m_, got=[[mv(m_, a), mv(m_, b)] for a, b in pairs]))
        if not ok:
            continue
        if unit:
            swapped = m > n
            # strip the free part: leading and trailing pairs (x_of_longer, None)
            def free(pr):
                a, b = pr
                return (a is None and b is not None) if swapped else (b is None and a is not None)
            core_pairs = list(pairs)
            while core_pairs and free(core_pairs[0]):
                core_pairs.pop(0)
            while core_pairs and free(core_pairs[-1]):
                core_pairs.pop()
        else:
            core_pairs = pairs
        cost = z3.IntVal(0)
        for a, b in core_pairs:
            cost = cost + pair_cost(a, b, zsub, zins, zdel)
        H.claim(cost == ref, 'C13:%s:cost' % fn, 'alignment cost differs from the true minimum',
                lambda m_: case(m_, got=[[mv(m_, a), mv(m_, b)] for a, b in pairs],
                                cost=core.model_value(m_, cost), ref=core.model_value(m_, ref)))
        if expect is None:
            H.witness(lambda m_: case(m_, expect=[[mv(m_, a), mv(m_, b)] for a, b in pairs]))
        else:
            H.witness(lambda m_: case(m_, expect=expect))
    return H.result()


def _run_summary(H, task):
    es = H.load('pero_ocr.error_summary')
    n, m = task['n'], task['m']
    ref_ = [S(z3.Int('r%d' % i)) for i in range(n)]
    hyp = [S(z3.Int('h%d' % i)) for i in range(m)]
    one = z3.IntVal(1)
    ref = ref_dp([x.e for x in ref_], [x.e for x in hyp], one, one, one)

    def case(m_, **kw):
        c = {'fn': 'summary', 'ref': mv(m_, ref_), 'hyp': mv(m_, hyp)}
        c.update(kw)
        return c

    def body():
        return es.ErrorsSummary.from_lists(list(ref_), list(hyp))

    for p, res, exc in H.explore(body):
        if exc is not None:
            H.fail('C13:summary:exception:%s' % type(exc).__name__, 'raised %r' % (exc,), lambda m_: case(m_))
            continue
        tot = core.lift(res.nb_subs) + core.lift(res.nb_inss) + core.lift(res.nb_dels)
        err = core.lift(res.nb_errors)
        fields = lambda m_: dict(nb_errors=mv(m_, res.nb_errors), nb_subs=mv(m_, res.nb_subs),
                                 nb_inss=mv(m_, res.nb_inss), nb_dels=mv(m_, res.nb_dels))
        H.claim(z3.And(tot == err, err == ref), 'C13:summary:sum', 'subs+inss+dels != nb_errors or != distance',
                lambda m_: case(m_, got=fields(m_), ref=core.model_value(m_, ref)))
        H.claim(core.lift(res.ref_len) == n, 'C13:summary:ref_len', 'ref_len wrong', lambda m_: case(m_))
        H.witness(lambda m_: case(m_, expect=fields(m_)))
    return H.result()


_FIELDS = ['nb_lines_summarized', 'ref_len', 'nb_errors', 'nb_subs', 'nb_inss', 'nb_dels']
_BFIELDS = ['correct', 'pure_deletions', 'mixed_deletions', 'pure_insertions', 'mixed_insertions', 'pure_substitutions']


def _run_aggregate(H, task):
    es = H.load('pero_ocr.error_summary')
    k = task['k']
    vals = [{f: S(z3.Int('%s_%d' % (f, i))) for f in _FIELDS} for i in range(k)]
    bvals = [{f: S(z3.Int('%s_%d' % (f, i))) for f in _BFIELDS} for i in range(k)]

    def case(m_, **kw):
        c = {'fn': 'aggregate', 'summaries': [mv(m_, v) for v in vals], 'boundary': [mv(m_, v) for v in bvals]}
        c.update(kw)
        return c

    def body():
        for v in vals:
            for f in _FIELDS:
                core.assume(z3.And(v[f].e >= 0, v[f].e <= 1000))
        for v in bvals:
            for f in _BFIELDS:
                core.assume(z3.And(v[f].e >= 0, v[f].e <= 1000))
        items = []
        for v, b in zip(vals, bvals):
            be = es.BoundaryErrorsSummary.empty_summary()
            for f in _BFIELDS:
                setattr(be, f, b[f])
            items.append(es.ErrorsSummary(v['nb_lines_summarized'], v['ref_len'], v['nb_errors'], v['nb_subs'],
                                          v['nb_inss'], v['nb_dels'], {}, be))
        return es.ErrorsSummary.aggregate(items)

    for p, res, exc in H.explore(body):
        if exc is not None:
            H.fail('C13:aggregate:exception:%s' % type(exc).__name__, 'raised %r' % (exc,), lambda m_: case(m_))
            continue
        conj = []
        for f in _FIELDS:
            conj.append(core.lift(getattr(res, f)) == sum(v[f].e for v in vals))
        for f in _BFIELDS:
            conj.append(core.lift(getattr(res.ending_errors, f)) == sum(v[f].e for v in bvals))
        got = lambda m_: {f: mv(m_, getattr(res, f)) for f in _FIELDS}
        gotb = lambda m_: {f: mv(m_, getattr(res.ending_errors, f)) for f in _BFIELDS}
        H.claim(z3.And(*conj), 'C13:aggregate:not-additive', 'aggregate is not field-wise addition',
                lambda m_: case(m_, got=got(m_), got_boundary=gotb(m_)))
        H.witness(lambda m_: case(m_, expect=got(m_), expect_boundary=gotb(m_)))
    return H.result()


# -- canaries: realistic mutations that still pass the repo's tests ---------------

_SA = 'pero_ocr/sequence_alignment.py'
_ES = 'pero_ocr/error_summary.py'


def canaries(tier):
    small = [t for t in tasks('quick') if t.get('n', 0) <= 3 and t.get('m', 0) <= 3]

    def sel(*fns):
        return [t for t in small if t['fn'] in fns]
    return [
        {'name': 'dist: ins/del swapped in the init row',
         'patches': [(_SA, "def levenshtein_distance(source, target, sub_cost=1, ins_cost=1, del_cost=1):\n    target = np.array(target, dtype=object)\n    dist = np.arange(len(target) + 1) * ins_cost",
                      "def levenshtein_distance(source, target, sub_cost=1, ins_cost=1, del_cost=1):\n    target = np.array(target, dtype=object)\n    dist = np.arange(len(target) + 1) * del_cost")],
         'tasks': sel('dist')},
        {'name': 'edit_stats: nsub = nphn - ncor - nins',
         'patches': [(_SA, 'nsub = nphn - ncor - ndel', 'nsub = nphn - ncor - nins')],
         'tasks': sel('summary')},
        {'name': 'alignment: where_sub < -> <= (still optimal: negative control)',
         'patches': [(_SA, "        where_sub = cost4sub < dist[1:]\n        dist[1:][where_sub] = cost4sub[where_sub]\n        backtrack[ii + 1, 1:][where_sub] = 0\n        for jj in range(len(dist) - 1):\n            if dist[jj + 1] > dist[jj] + ins_cost:\n                dist[jj + 1] = dist[jj] + ins_cost\n                backtrack[ii + 1, jj + 1] = -1\n    src_pos = len(source)\n    tar_pos = len(target)\n    alig = []",
                      "        where_sub = cost4sub <= dist[1:]\n        dist[1:][where_sub] = cost4sub[where_sub]\n        backtrack[ii + 1, 1:][where_sub] = 0\n        for jj in range(len(dist) - 1):\n            if dist[jj + 1] > dist[jj] + ins_cost:\n                dist[jj + 1] = dist[jj] + ins_cost\n                backtrack[ii + 1, jj + 1] = -1\n    src_pos = len(source)\n    tar_pos = len(target)\n    alig = []")],
         'tasks': sel('align'), 'expect': False},
        {'name': 'alignment: insertion relaxation uses >= and loses the backtrack',
         'patches': [(_SA, "            if dist[jj + 1] > dist[jj] + ins_cost:\n                dist[jj + 1] = dist[jj] + ins_cost\n                backtrack[ii + 1, jj + 1] = -1\n    src_pos = len(source)\n    tar_pos = len(target)\n\n    align = []",
                      "            if dist[jj + 1] > dist[jj] + ins_cost:\n                dist[jj + 1] = dist[jj] + ins_cost\n                backtrack[ii + 1, jj + 1] = 0\n    src_pos = len(source)\n    tar_pos = len(target)\n\n    align = []")],
         'tasks': sel('path')},
        {'name': 'aggregate: nb_inss accumulates nb_dels',
         'patches': [(_ES, 'total_nb_inss += err.nb_inss', 'total_nb_inss += err.nb_dels')],
         'tasks': [t for t in small if t['fn'] == 'aggregate']},
        {'name': 'substring distance: suffix min dropped on last row',
         'patches': [(_SA, "        dist[-1] = np.minimum(dist[-1], dist[-2])\n", "        dist[-1] = dist[-2]\n")],
         'tasks': sel('sdist')},
    ]

"""C18 replay against the real LayoutEngine.detect / rotate_layout / order_lines_vertical with stubbed network and parser
(real numpy rot90 decides the rotated frame: a marker pixel is placed in a real image and located after rotation)."""
import random
import types
from fractions import Fraction

import numpy as np

from pero_ocr.layout_engines import cnn_layout_engine as eng
from pero_ocr.layout_engines import layout_helpers as hl


def _f(x):
    return float(Fraction(x)) if isinstance(x, str) else float(x)


def _rot_point(x, y, H, W, rot):
    """where real np.rot90 puts the (integer) pixel (x, y): measured, not computed"""
    xi, yi = int(round(x)), int(round(y))
    img = np.zeros((H, W), dtype=np.uint8)
    img[yi, xi] = 1
    r = np.rot90(img, k=rot)
    yy, xx = np.argwhere(r == 1)[0]
    return float(xx) + (x - xi if rot in (0,) else 0.0), float(yy) + (y - yi if rot in (0,) else 0.0)


def _detect(case):
    Hh, Ww = [int(_f(v)) for v in case['page']]
    rot, n, npt = case['rot'], case['n'], case['npt']
    # integer points (the marker technique needs pixel positions); models are rounded
    P = {nm: [[[min(max(int(round(_f(x))), 0), Ww - 1), min(max(int(round(_f(y))), 0), Hh - 1)] for x, y in pts] for pts in case['points'][nm]] for nm in case['points']}
    rotated = {nm: [np.array([_rot_point(x, y, Hh, Ww, rot) for x, y in pts], dtype=float) for pts in P[nm]] for nm in P}
    jit = [_f(j) for j in case['jitter']]
    jl = list(jit)
    e = object.__new__(eng.LayoutEngine)
    e.parsenet = types.SimpleNamespace(get_maps_with_optimal_resolution=lambda image: (np.zeros((1, 1, 5)), 1))
    e.parse = lambda maps, ds: (list(rotated['base']), [['h_up_%d' % i, 'h_down_%d' % i] for i in range(n)], list(rotated['outline']))
    e.make_clusters = lambda b, h, t, m, ds: 'clusters'
    e.clustered_lines_to_polygons = lambda t_list, clusters: list(rotated['region'])
    saved = hl.random
    hl.random = types.SimpleNamespace(uniform=lambda a, b: jl.pop(0) if jl else 0.5)
    try:
        import contextlib, io
        with contextlib.redirect_stdout(io.StringIO()):
            p_list, b_list, h_list, t_list = e.detect(np.zeros((Hh, Ww, 3), dtype=np.uint8), rot=rot)
    finally:
        hl.random = saved
    bad = []
    for j in range(len(h_list)):
        i = int(h_list[j][0].split('_')[-1])
        for nm, got in (('base', b_list[j]), ('outline', t_list[j])):
            if np.abs(np.asarray(got, dtype=float) - np.array(P[nm][i], dtype=float)).max() > 1 + 1e-9:
                bad.append('rot %d: %s of line %d comes back as %r, original %r' % (rot, nm, i, np.asarray(got).tolist(), P[nm][i]))
    for i in range(len(p_list)):
        if np.abs(np.asarray(p_list[i], dtype=float) - np.array(P['region'][i], dtype=float)).max() > 1 + 1e-9:
            bad.append('rot %d: region %d comes back as %r, original %r' % (rot, i, np.asarray(p_list[i]).tolist(), P['region'][i]))
    return [h[0] for h in h_list], bad


def _order(case):
    ys = [_f(v) for v in case['y']]
    jl = [_f(v) for v in case['jitter']]
    n = len(ys)
    saved = hl.random
    hl.random = types.SimpleNamespace(uniform=lambda a, b: jl.pop(0))
    try:
        bl = [np.array([[0, ys[i]], [10, ys[i]]]) for i in range(n)]
        b, h, t = hl.order_lines_vertical(bl, ['h%d' % i for i in range(n)], ['t%d' % i for i in range(n)])
    finally:
        hl.random = saved
    idx = [int(x[1:]) for x in h]
    bad = []
    if [int(x[1:]) for x in t] != idx or any(b[j] is not bl[idx[j]] for j in range(n)):
        bad.append('lists misaligned')
    return h, bad


def replay(case):
    try:
        got, bad = (_order if case['mode'] == 'order' else _detect)(case)
    except Exception as e:
        return {'reproduced': True, 'detail': 'raised %r' % (e,)}
    return {'reproduced': bool(bad), 'detail': '; '.join(bad[:3]) or 'ok'}


def check_witness(w):
    got, bad = (_order if w['mode'] == 'order' else _detect)(w)
    exp = w['expect'] if w['mode'] == 'order' else w['expect']['order']
    return {'match': not bad and got == exp, 'got': got, 'bad': bad[:2]}

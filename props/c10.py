"""C10 -- line crops sample the band around the baseline, on every code path (the arithmetic clauses).

Float geometry through scipy / cv2 is a weak target for this technique; the claim is restricted to what is
arithmetic in the repository's own code (pero_ocr/core/crop_engine.py):

* fast path = general path: EngineLineCropper.fast_remap crops the page to the bounding box of the sample points before
  calling cv2.remap; with cv2.remap modelled as a bilinear sampler over an uninterpreted pixel function with a constant-0
  border, the cropped call must equal the full call for every sample point whenever the fast branch is taken;
* (not scheduled, see DESIGN.md 7.6) the interpolant is only evaluated inside its domain;
* the fallback: crop() turns any failure of get_crop_inputs into a blank crop of the configured height, never an error.
"""
import itertools
import types
import z3

from symx import core
from symx.core import S, SB
from symx import symnp, shims
from symx.harness import Harness, mv

ID = 'C10'

META = {
    'functions': [
        'pero_ocr/core/crop_engine.py:EngineLineCropper.fast_remap',
        'pero_ocr/core/crop_engine.py:EngineLineCropper.crop',
        'pero_ocr/core/crop_engine.py:EngineLineCropper.get_crop_inputs',
        'pero_ocr/core/crop_engine.py:EngineLineCropper.reverse_line_mapping',
    ],
    'bounds': {
        'quick': 'fast_remap: 1..2 sample points with symbolic real coordinates in [-50, 4050]^2, page of symbolic size <= 4000 x 4000, any pixel function; fallback: five kinds of failure (ValueError, IndexError, ZeroDivisionError, TypeError, OverflowError)',
        'thorough': 'fast_remap: 3 sample points',
    },
    'assumptions': [
        'cv2.remap(INTER_LINEAR, BORDER_CONSTANT) = bilinear interpolation of the four neighbouring pixels, pixels outside the image are 0 (OpenCV documentation; its fixed-point weights are outside)',
        'scipy interp1d(kind=cubic) without fill_value raises ValueError outside [first node, last node]; with fill_value="extrapolate" it never raises; its values are an uninterpreted function',
        'the rotation into the baseline frame is replaced by arbitrary real abscissae with the end points on one horizontal line (an over-approximation of all rotated integer baselines)',
        'sqrt is a fresh positive real (arc lengths are arbitrary positive numbers): over-approximation',
    ],
    'outside': ['geometry of the sampled band for curved baselines (least-squares polyfit, FITPACK splines), pixel values of real crops, cv2 fixed-point interpolation, reverse_xy_mapping / blend_in',
                'the width / uniform-spacing / perpendicularity clauses of the property (nonlinear geometry: polynomial identities over sqrt and rotation that did not fit the time budget)'],
    'stubs': ['cv2.remap -> bilinear sampler over an uninterpreted pixel function', 'scipy.interpolate.interp1d -> uninterpreted function with domain check', 'math.atan2 / np.cos / np.sin / np.linalg.inv / np.dot -> rotated frame given directly'],
}


def tasks(tier):
    ts = []
    for n in ((1, 2) if tier == 'quick' else (1, 2, 3)):
        ts.append({'mode': 'remap', 'n': n})
    ts.append({'mode': 'fallback'})
    # the 'domain' mode (get_crop_inputs with an uninterpreted interpolant) is kept in this file but not scheduled: its queries do not
    # return in z3 within the time budget (DESIGN.md 7.6)
    return ts


PIX = z3.Function('pixel', z3.IntSort(), z3.IntSort(), z3.RealSort())      # (row, col) -> value


def run_task(task, patches=None):
    mode = task['mode']
    if mode == 'remap':
        return _run_remap(task, patches)
    if mode == 'fallback':
        return _run_fallback(task, patches)
    return _run_domain(task, patches)


class Img:
    """page image: uninterpreted pixel function on an H x W grid (optionally a window of another image)"""

    def __init__(self, H, W, r0=0, c0=0):
        self.H, self.W, self.r0, self.c0 = H, W, r0, c0
        self.shape = (H, W, 3)

    def __getitem__(self, key):
        ys, xs = key
        assert ys.step is None and xs.step is None

        def clip(sl, n):
            # Python / numpy slice semantics: negative bounds count from the end, everything is clipped to [0, n]
            def eff(v):
                v, ne = _z(v), _z(n)
                w = z3.If(v < 0, v + ne, v)
                return z3.If(w < 0, 0, z3.If(w > ne, ne, w))
            a, b = eff(sl.start), eff(sl.stop)
            return a, z3.If(b > a, b - a, 0)
        r0, h = clip(ys, self.H)
        c0, w = clip(xs, self.W)
        return Img(S(h), S(w), _z(self.r0) + r0, _z(self.c0) + c0)

    def pixel(self, r, c):
        """value at integer (r, c): 0 outside (BORDER_CONSTANT)"""
        inside = z3.And(r >= 0, r < _z(self.H), c >= 0, c < _z(self.W))
        return z3.If(inside, PIX(r + _z(self.r0), c + _z(self.c0)), z3.RealVal(0))


def _z(x):
    return x if isinstance(x, z3.ExprRef) else core.lift(x)


class Trig:
    def __neg__(self):
        return self


def support(img, x, y):
    """the four (weight, pixel value) pairs bilinear interpolation at (x, y) reads"""
    xe, ye = core._real(_z(x)), core._real(_z(y))
    ix, iy = z3.ToInt(xe), z3.ToInt(ye)
    fx, fy = xe - z3.ToReal(ix), ye - z3.ToReal(iy)
    return [((1 - fy) * (1 - fx), img.pixel(iy, ix)), ((1 - fy) * fx, img.pixel(iy, ix + 1)),
            (fy * (1 - fx), img.pixel(iy + 1, ix)), (fy * fx, img.pixel(iy + 1, ix + 1))], (fx, fy)


def bilinear(img, x, y):
    sup, _ = support(img, x, y)
    return sum(w * p_ for w, p_ in sup)


def same_sample(img_a, xa, ya, img_b, xb, yb):
    """z3: bilinear sampling of img_a at (xa, ya) reads the same values with the same weights as img_b at (xb, yb)
    (a neighbour with weight 0 may differ)"""
    (sa, (fxa, fya)), (sb, (fxb, fyb)) = support(img_a, xa, ya), support(img_b, xb, yb)
    wz = [z3.Or(fya == 1, fxa == 1), z3.Or(fya == 1, fxa == 0), z3.Or(fya == 0, fxa == 1), z3.Or(fya == 0, fxa == 0)]
    return z3.And(fxa == fxb, fya == fyb, *[z3.Or(z, pa == pb) for z, (_, pa), (_, pb) in zip(wz, sa, sb)])


def _run_remap(task, patches):
    H = Harness(patches, extra_builtins={'print': lambda *a, **k: None})
    n = task['n']
    K = 'C10:remap:'
    xs = [z3.Real('x_%d' % i) for i in range(n)]
    ys = [z3.Real('y_%d' % i) for i in range(n)]
    Hh, Ww = z3.Int('img_h'), z3.Int('img_w')
    calls = []
    cv2 = types.ModuleType('cv2')
    cv2.INTER_LINEAR, cv2.BORDER_CONSTANT, cv2.BORDER_TRANSPARENT = 1, 0, 5

    def remap(img, mx, my, interpolation=None, borderMode=None, **kw):
        mx, my = symnp.asarray(mx), symnp.asarray(my)
        calls.append((img, list(mx.d), list(my.d)))
        if bool((S(_z(img.H)) <= 0) | (S(_z(img.W)) <= 0)):
            raise RuntimeError('cv2.error: (-215:Assertion failed) !src.empty() in function remap')
        return symnp.A([S(bilinear(img, a, b)) for a, b in zip(mx.d, my.d)], mx.shape)
    cv2.remap = remap
    H.loader.shim_map['cv2'] = cv2
    ce = H.load('pero_ocr.core.crop_engine')

    def case(m_, **kw):
        c = {'mode': 'remap', 'n': n, 'points': [[mv(m_, S(a)), mv(m_, S(b))] for a, b in zip(xs, ys)], 'img': [mv(m_, S(Hh)), mv(m_, S(Ww))]}
        c.update(kw)
        return c

    def body():
        del calls[:]
        core.assume(z3.And(Hh >= 1, Hh <= 4000, Ww >= 1, Ww <= 4000))
        for a, b in zip(xs, ys):
            core.assume(z3.And(a >= -50, a <= 4050, b >= -50, b <= 4050))
        img = Img(S(Hh), S(Ww))
        coords = symnp.A([v for a, b in zip(xs, ys) for v in (S(a), S(b))], (1, n, 2))
        cropper = ce.EngineLineCropper(line_height=32, poly=0, scale=1)
        return img, cropper.fast_remap(img, coords)

    for p, res, exc in H.explore(body):
        if exc is not None:
            H.fail(K + 'exception:' + type(exc).__name__, 'raised %r' % (exc,), lambda m_: case(m_))
            continue
        img, out = res
        cimg, cx, cy = calls[-1]
        fast = cimg is not img
        H.claim(z3.And(*[same_sample(cimg, a2, b2, img, a, b) for a2, b2, a, b in zip(cx, cy, xs, ys)]), K + ('fast-path-differs' if fast else 'general-path-differs'),
                'the crop computed on the cropped sub-image differs from the crop computed on the whole page (a sample needs pixels outside the sub-image, or the sub-image is misplaced)',
                lambda m_: case(m_, fast=bool(fast)))
        H.witness(lambda m_: case(m_, expect={'fast': bool(fast)}), extra=[z3.Or(v - z3.ToReal(z3.ToInt(v)) > z3.RealVal('1/10')) for v in xs + ys])
    return H.result()


def _run_fallback(task, patches):
    H = Harness(patches, extra_builtins={'print': lambda *a, **k: None})
    ce = H.load('pero_ocr.core.crop_engine')
    K = 'C10:fallback:'
    kinds = [ValueError('x_new is above the interpolation range'), IndexError('index -1 is out of bounds'), ZeroDivisionError('division by zero'), TypeError('bad'),
             OverflowError('cannot convert float infinity to integer')]
    state = {}

    def body():
        k = state['k'] = core.choose(len(kinds))
        cropper = ce.EngineLineCropper(line_height=24, poly=0, scale=1)

        def boom(baseline, heights, target_height):
            raise kinds[k]
        cropper.get_crop_inputs = boom

        class I:
            shape = (100, 200, 3)
        return k, cropper.crop(I(), None, [5, 3])

    for p, res, exc in H.explore(body):
        if exc is not None:
            H.fail(K + 'error-escapes', 'a failing line crop raised %r instead of falling back to a blank crop' % (exc,), lambda m_: {'mode': 'fallback', 'kind': state.get('k', 0)})
            continue
        k, crop = res
        if tuple(crop.shape)[0] != 24 or tuple(crop.shape)[2] != 3 or any(v != 0 for v in crop.d):
            H.fail(K + 'not-blank', 'the fallback crop is not a blank image of the configured height: shape %r' % (crop.shape,), lambda m_: {'mode': 'fallback', 'kind': k})
        H.witness(lambda m_: {'mode': 'fallback', 'kind': k, 'expect': list(crop.shape)})
    return H.result()


F_INT = z3.Function('interp', z3.RealSort(), z3.RealSort())


def _run_domain(task, patches):
    """get_crop_inputs, interpolation order 0 (cubic interp1d), 4 nodes: the interpolant must only be evaluated inside its domain,
    so that a non-degenerate baseline is actually cropped and does not end in the blank fallback."""
    H = Harness(patches, extra_builtins={'print': lambda *a, **k: None})
    H.ctx.lazy_products = True
    H.ctx.lazy_quotients = True
    K = 'C10:domain:'
    maxlen, maxcols = task['maxlen'], task['maxcols']
    xr = [z3.Real('xr_%d' % i) for i in range(4)]        # rotated abscissae of the 4 nodes
    yr = [z3.Real('yr_%d' % i) for i in range(4)]
    hts = [z3.Real('h_up'), z3.Real('h_down')]
    state = {}

    class Interp:
        def __init__(self, x, y, kind='linear', fill_value=None, bounds_error=None, **kw):
            x = symnp.asarray(x)
            if x.shape[0] < 4 and kind == 'cubic':
                raise ValueError('The number of derivatives at boundaries does not match: expected 4 nodes')
            self.lo, self.hi = core.smin(list(x.d)), core.smax(list(x.d))
            self.extrapolate = (fill_value == 'extrapolate')
            state['interp'] = self

        def __call__(self, q):
            q = symnp.asarray(q)
            out = []
            for v in q.d:
                if not self.extrapolate:
                    if bool(v < self.lo):
                        raise ValueError('A value in x_new is below the interpolation range.')
                    if bool(v > self.hi):
                        state['above'] = v
                        raise ValueError('A value in x_new is above the interpolation range.')
                out.append(S(F_INT(core._real(core.lift(v)))))
            return symnp.A(out, q.shape)
    sp_int = types.ModuleType('scipy.interpolate')
    sp_int.interp1d = Interp
    sc = shims.default_shims()['scipy']
    sc.__dict__['interpolate'] = sp_int
    H.loader.shim_map['scipy'] = sc
    H.loader.shim_map['scipy.interpolate'] = sp_int
    ce = H.load('pero_ocr.core.crop_engine')
    real_ssqrt = core.ssqrt

    def loose_sqrt(x):
        if isinstance(x, (int, float)):
            return real_ssqrt(x)
        r = z3.Real(core.fresh_name('sqrt'))
        xe = core._real(x.e)
        core.axiom(z3.And(r >= 0, z3.Implies(xe > 0, r > 0), z3.Implies(xe >= 1, r >= 1)))
        return S(r)

    class NpProxy:
        def __getattr__(self, name):
            return getattr(symnp, name)

        def dot(self, a, b):
            if isinstance(b, str) and b == 'R_inverse':
                # the baseline in its own frame: arbitrary abscissae, end points on one horizontal line
                return symnp.A([v for i in range(4) for v in (S(xr[i]), S(yr[i]))], (4, 2))
            if isinstance(b, str):
                return a          # rotation back: coordinates stay symbolic (not claimed)
            return symnp.dot(a, b)

        def cos(self, a):
            return Trig()

        def sin(self, a):
            return Trig()

        def array(self, x, *a, **k):
            if isinstance(x, list) and x and isinstance(x[0], list) and x[0] and isinstance(x[0][0], Trig):
                return 'R'
            return symnp.array(x, *a, **k)

        class linalg:
            @staticmethod
            def inv(r):
                return 'R_inverse'
    proxy = NpProxy()

    def case(m_, **kw):
        c = {'mode': 'domain', 'xr': [mv(m_, S(v)) for v in xr], 'heights': [mv(m_, S(h)) for h in hts]}
        c.update(kw)
        return c

    def body():
        state.clear()
        core.ssqrt = loose_sqrt
        ce.np = proxy
        ce.math = types.SimpleNamespace(atan2=lambda a, b: 'alfa')
        try:
            core.assume(z3.And(xr[0] < xr[1], xr[1] < xr[2], xr[2] < xr[3], xr[3] - xr[0] > 3, xr[3] - xr[0] < maxlen, yr[0] == yr[3],
                               hts[0] > 0, hts[1] > 0))
            cropper = ce.EngineLineCropper(line_height=16, poly=0, scale=1)
            # target height / (h_up + h_down) bounded so that the number of output columns stays small
            core.assume(16 * (xr[3] - xr[0] + 2) < maxcols * (hts[0] + hts[1]))
            base = symnp.A([0, 0, 1, 0, 2, 0, 3, 0], (4, 2))       # placeholder: the rotated frame is supplied by the stub of np.dot
            return cropper.get_crop_inputs(base, [S(hts[0]), S(hts[1])], 16)
        finally:
            core.ssqrt = real_ssqrt

    if task.get('split_only'):
        return H.result(prefixes=H.split(body, task['split_only']))
    for p, res, exc in H.explore(body, root=task.get('prefix')):
        if exc is not None:
            if isinstance(exc, ValueError) and 'interpolation range' in str(exc):
                H.fail(K + 'interpolant-outside-domain', 'the cubic interpolant of a non-degenerate baseline is evaluated outside its nodes: %s (crop() then returns a blank image)' % exc,
                       lambda m_: case(m_, error=str(exc)))
            else:
                H.fail(K + 'exception:' + type(exc).__name__, 'raised %r' % (exc,), lambda m_: case(m_))
            continue
        out = symnp.asarray(res)
        if out.shape[0] != 16 or out.shape[2] != 2:
            H.fail(K + 'shape', 'crop grid has shape %r' % (out.shape,), lambda m_: case(m_))
    return H.result()


_F = 'pero_ocr/core/crop_engine.py'


def canaries(tier):
    q = tasks('quick')
    rm = [t for t in q if t['mode'] == 'remap']
    return [
        {'name': 'sub-image one pixel short (y_min:y_max instead of y_min:y_max+1)', 'patches': [(_F, 'img_crop = img[y_min:y_max+1, x_min:x_max+1]', 'img_crop = img[y_min:y_max, x_min:x_max+1]')], 'tasks': rm},
        {'name': 'fast path also taken when the band leaves the page at the right', 'patches': [(_F, 'x_max > img.shape[1]-1 or', 'x_max > img.shape[1]+1 or')], 'tasks': rm, 'error_counts': True},
        {'name': 'fast path taken although the band starts above the page', 'patches': [(_F, 'if x_min < 0 or y_min < 0 or', 'if x_min < 0 or y_max < 0 or')], 'tasks': rm, 'error_counts': True},
        {'name': 'shifted coordinates use the wrong origin', 'patches': [(_F, 'y_coords_shifted = coords[:, :, 1] - y_min', 'y_coords_shifted = coords[:, :, 1] - x_min')], 'tasks': rm},
        {'name': 'fallback narrowed to ValueError', 'patches': [(_F, '        except:\n            print("ERROR: line crop failed."', '        except ValueError:\n            print("ERROR: line crop failed."')],
         'tasks': [t for t in q if t['mode'] == 'fallback']},
    ]

"""C12 replay against the real sorters (real numpy, sklearn, shapely)."""
import warnings
from fractions import Fraction

import numpy as np

from pero_ocr.core.layout import PageLayout, RegionLayout, TextLine
from pero_ocr.layout_engines import smart_sorter, naive_sorter


def _f(x):
    return float(Fraction(x)) if isinstance(x, str) else float(x)


def _page(case):
    pl = PageLayout(id='p', page_size=(1000, 1000))
    for i, b in enumerate(case['boxes']):
        x0, y0, x1, y1 = [_f(v) for v in b]
        pts = [[x0, y0], [x1, y0], [x1, y1], [x0, y1]]
        if case.get('concave'):
            pts = [[x0, y0], [x1, y0], [(x0 + x1) / 2, (y0 + y1) / 2], [x1, y1], [x0, y1]]
        reg = RegionLayout('r%d' % i, np.array(pts, dtype=np.float64))
        reg.transcription = 'text %d' % i
        if case.get('deskew') and i == 0:
            # slanted lines in the first region: a non-zero de-skew angle
            for k in range(2):
                yb = y0 + 10 * (k + 1)
                reg.lines.append(TextLine(id='r0-l%d' % k, baseline=np.array([[x0, yb], [x0 + 200.0, yb + 10.0]]),
                                          polygon=np.array([[x0, yb - 5], [x0 + 200.0, yb + 5.0], [x0 + 200.0, yb + 12.0], [x0, yb + 2]]), heights=[5, 2]))
        pl.regions.append(reg)
    return pl


def _run(case):
    pl = _page(case)
    before = list(pl.regions)
    polys = [r.polygon.copy() for r in before]
    with warnings.catch_warnings():
        warnings.simplefilter('ignore')
        with np.errstate(all='ignore'):
            if case['mode'] == 'smart':
                s = object.__new__(smart_sorter.SmartRegionSorter)
                s.intersect_param = _f(case['param'])
                out = s.process_page(None, pl)
            else:
                s = object.__new__(naive_sorter.NaiveRegionSorter)
                s.width_denom = int(_f(case['denom']))
                out = s.process_page(np.zeros((10, int(_f(case['width'])), 3)), pl)
    after = list(out.regions)
    bad = None
    if sorted(map(id, after)) != sorted(map(id, before)):
        bad = 'not a permutation: %r' % ([r.id for r in after],)
    else:
        for r, q in zip(before, polys):
            got = np.asarray(r.polygon, dtype=float)
            if case.get('deskew'):
                # up to the round-off of the de-skew rotation (shapely also closes the ring: one repeated point more)
                if got.shape[0] < q.shape[0] or not np.allclose(got[:q.shape[0]], q, atol=1e-6 * (1 + np.abs(q).max())):
                    bad = 'polygon of region %s changed by sorting: %r -> %r' % (r.id, q.tolist(), got.tolist())
            elif not np.array_equal(got, q):
                bad = 'a region was modified'
            if r.transcription != 'text %s' % r.id[1:]:
                bad = 'region text changed'
    return [r.id for r in after], bad


def _replay1(case):
    try:
        order, bad = _run(case)
    except Exception as e:
        return {'reproduced': True, 'detail': 'raised %r' % (e,)}
    return {'reproduced': bad is not None, 'detail': bad or 'ok %r' % (order,)}


def replay(case):
    r = _replay1(case)
    if not r['reproduced'] and case.get('deskew') and case.get('rot_boxes'):
        # the symbolic run de-skewed with an abstract rotation: the sorter worked on rot_boxes.  The page that has these boxes and
        # no slanted line is a real input on which the sorter does the same ordering work
        c2 = dict(case, boxes=case['rot_boxes'], deskew=False)
        r2 = _replay1(c2)
        if r2['reproduced']:
            return {'reproduced': True, 'detail': 'on the page whose regions are the de-skewed boxes %r: %s' % (case['rot_boxes'], r2['detail'])}
    return r


def check_witness(w):
    order, bad = _run(w)
    return {'match': bad is None and order == w['expect'], 'got': order, 'bad': bad}

"""C02 -- CTC prefix beam search never over-counts and is exact when unpruned.

Symbolic execution of pero_ocr/decoding/decoders.py (CTCPrefixLogRawNumpyDecoder
and its helpers), multisort.top_k and BagOfHypotheses on a T x C matrix in the
LogP domain: every log-probability is its probability p[t][c] > 0 (rows sum to
1), so all scores are polynomials in p.  np.argpartition inside top_k is a
nondeterministic stub: it returns ANY k-subset of the finite entries such that
every kept score >= every dropped score (every admissible tie-break), the
ranking constraints going into the path condition.
"""
import itertools
import z3

from symx import core
from symx.core import S, SB
from symx import symnp
from symx.logp import LP
from symx import logp
from symx.harness import Harness, mv

ID = 'C02'

META = {
    'functions': [
        'pero_ocr/decoding/decoders.py:CTCPrefixLogRawNumpyDecoder.__call__',
        'pero_ocr/decoding/decoders.py:CTCPrefixLogRawNumpyDecoder.compute_Pnb',
        'pero_ocr/decoding/decoders.py:CTCPrefixLogRawNumpyDecoder.compute_Pb',
        'pero_ocr/decoding/decoders.py:CTCPrefixLogRawNumpyDecoder.get_reduced_Pc',
        'pero_ocr/decoding/decoders.py:CTCPrefixLogRawNumpyDecoder.get_reduced_last_chars',
        'pero_ocr/decoding/decoders.py:get_continuation_mask',
        'pero_ocr/decoding/decoders.py:adjust_for_prefix_joining',
        'pero_ocr/decoding/decoders.py:find_matching',
        'pero_ocr/decoding/decoders.py:find_new_prefixes',
        'pero_ocr/decoding/decoders.py:get_new_prefixes_positions',
        'pero_ocr/decoding/decoders.py:get_old_prefixes_positions',
        'pero_ocr/decoding/decoders.py:select_relevant_logits',
        'pero_ocr/decoding/decoders.py:logprobs_max_deviation',
        'pero_ocr/decoding/decoders.py:build_boh',
        'pero_ocr/decoding/multisort.py:top_k',
        'pero_ocr/decoding/bag_of_hypotheses.py:BagOfHypotheses',
    ],
    'bounds': {
        'quick': 'T <= 3 frames, C = 3 symbols (2 letters + blank), beam width k in {1, 2, 3, unbounded}, default (> -10) and '
                 'non-pruning symbol selectors; T = 2 with exact-zero (-inf) entries; normalisation guard with free rows, T <= 2',
        'thorough': 'T = 4, C = 3, k <= 3 (non-pruning selector; default selector for k <= 2) and T = 3, C = 4, k <= 3; zero-entry runs at T = 3',
    },
    'assumptions': [
        'exact real arithmetic: a log-probability is its probability (log semiring = probability semiring); float round-off in logaddexp is outside',
        'np.argpartition returns some k-subset whose scores are >= all others (any tie-break: a superset of numpy\'s behaviour), in index order or reversed',
        'the constant e^-10 of the default selector is a symbolic real within 2^-40 relative of its value',
    ],
    'outside': ['T > 4, C > 4, k > 3 (except unbounded)', 'the symbol_separator join', 'float round-off / underflow'],
    'stubs': ['BagOfHypotheses.sort -> no-op (the order of the returned bag is not claimed)', 'numpy -> symx.symnp (LogP domain)', 'np.argpartition -> nondeterministic admissible top-k', 'scipy logsumexp -> LogP sum'],
}

BIG = 10 ** 6


def tasks(tier):
    ts = []
    if tier == 'quick':
        for T in (1, 2, 3):
            for k in (1, 2, 3, BIG):
                t = {'mode': 'beam', 'T': T, 'C': 3, 'k': k, 'sel': 'all'}
                if T == 3 and k in (2, 3):
                    t['split'] = 32
                ts.append(t)
        for T in (1, 2):
            for k in (1, 2, BIG):
                ts.append({'mode': 'beam', 'T': T, 'C': 3, 'k': k, 'sel': 'default'})
        ts.append({'mode': 'beam', 'T': 3, 'C': 3, 'k': 2, 'sel': 'default', 'split': 32})
        ts.append({'mode': 'beam', 'T': 2, 'C': 3, 'k': 2, 'sel': 'all', 'zeros': [[0, 0]]})
        ts.append({'mode': 'beam', 'T': 2, 'C': 3, 'k': 2, 'sel': 'all', 'zeros': [[0, 2], [1, 1]]})
        ts.append({'mode': 'beam', 'T': 2, 'C': 3, 'k': BIG, 'sel': 'all', 'zeros': [[1, 2]]})
        for T in (1, 2):
            ts.append({'mode': 'guard', 'T': T, 'C': 3})
    else:
        for T in (1, 2, 3, 4):
            for k in (1, 2, 3, BIG):
                t = {'mode': 'beam', 'T': T, 'C': 3, 'k': k, 'sel': 'all'}
                if T == 4 and k in (2, 3):
                    t['split'] = 64
                ts.append(t)
        for T in (1, 2, 3):
            for k in (1, 2, 3, BIG):
                t = {'mode': 'beam', 'T': T, 'C': 4, 'k': k, 'sel': 'all'}
                if T == 3 and k in (2, 3):
                    t['split'] = 64
                ts.append(t)
        for T in (1, 2, 3):
            for k in (1, 2, BIG):
                t = {'mode': 'beam', 'T': T, 'C': 3, 'k': k, 'sel': 'default'}
                if T == 3:
                    t['split'] = 64
                ts.append(t)
        for zeros in ([[0, 0]], [[0, 2], [1, 1]], [[1, 2]], [[0, 0], [0, 1]], [[2, 2]], [[1, 0], [2, 0]]):
            for k in (1, 2, BIG):
                ts.append({'mode': 'beam', 'T': 3, 'C': 3, 'k': k, 'sel': 'all', 'zeros': zeros})
        for T in (1, 2, 3):
            ts.append({'mode': 'guard', 'T': T, 'C': 3})
    ts.sort(key=lambda t: -(t['T'] ** 3) * (t['C'] ** 2) * min(t.get('k', 1), 4))
    return ts


def collapse(path, blank):
    out = []
    prev = None
    for s in path:
        if s != prev and s != blank:
            out.append(s)
        prev = s
    return tuple(out)


def ctc_reference(P, T, C, mask=None):
    """transcript (tuple of symbol indices) -> polynomial: sum over all alignments of the product of probabilities.
    mask[t][c] False = symbol c pruned in frame t (probability treated as 0)."""
    ref = {}
    for path in itertools.product(range(C), repeat=T):
        if mask is not None and any(not mask[t][s] for t, s in enumerate(path)):
            continue
        m = None
        dead = False
        for t, s in enumerate(path):
            x = P[t][s]
            if x is None:
                dead = True
                break
            m = x if m is None else m * x
        if dead:
            continue
        key = collapse(path, C - 1)
        ref[key] = m if key not in ref else ref[key] + m
    return ref


def _argpartition_stub(rec):
    def argpartition(flat, kth, axis=-1):
        flat = symnp.asarray(flat)
        n = len(flat.d)
        kk = n - kth

        def zero(x):
            return (isinstance(x, float) and x == float('-inf')) or (hasattr(x, 'zero') and x.zero)
        fin = [i for i, x in enumerate(flat.d) if not zero(x)]
        if kk > len(fin):
            raise AssertionError('top_k asked for more entries than are finite')
        g = core.guide()
        if g is not None:
            # guided (concolic) run: the concrete top-k; ties are avoided by the caller
            vals = {i: g.value(S(flat.d[i].p)) for i in fin}
            ranked = sorted(fin, key=lambda i: (-vals[i], i))
            if kk < len(ranked) and kk > 0 and vals[ranked[kk - 1]] == vals[ranked[kk]]:
                raise core.Abort('tie under the guide')
            sel = tuple(sorted(ranked[:kk]))
            rec['selections'].append({'n': n, 'kept': list(sel)})
            order = [i for i in range(n) if i not in sel] + list(sel)
            return symnp.A(order, (n,), symnp.int64)
        subs = list(itertools.combinations(fin, kk))
        sel = subs[core.choose(len(subs))]
        rest = [i for i in fin if i not in sel]
        cons = []
        for i in sel:
            for j in rest:
                c = flat.d[i] >= flat.d[j]
                if isinstance(c, bool):
                    if not c:
                        raise core.Abort('not a top-k')
                    continue
                cons.append(core.zb(c))
        if cons:
            core.assume(z3.And(*cons), check=False)
        # numpy returns the kept entries in no particular order: index order or reversed (all orders for k = 2)
        kept = list(sel)
        if len(kept) > 1 and core.choose(2) == 1:
            kept.reverse()
        rec['selections'].append({'n': n, 'kept': kept})
        order = [i for i in range(n) if i not in sel] + kept
        return symnp.A(order, (n,), symnp.int64)
    return argpartition


def _partition_stub(rec):
    """np.partition(flat, kth): the n - kth best entries (any admissible choice, as argpartition) behind position kth, the
    smallest of them AT position kth"""
    def partition(flat, kth, axis=-1):
        flat = symnp.asarray(flat)
        order = [symnp._to_index(i) for i in symnp.argpartition(flat, kth).d]
        lo, up = order[:kth], order[kth:]
        g = core.guide()
        if g is not None:
            piv = min(up, key=lambda i: (g.value(S(flat.d[i].p)), i))
        else:
            piv = up[core.choose(len(up))]
            cons = []
            for u in up:
                if u != piv:
                    c = flat.d[piv] <= flat.d[u]
                    if isinstance(c, bool):
                        if not c:
                            raise core.Abort('not the k-th')
                        continue
                    cons.append(core.zb(c))
            if cons:
                core.assume(z3.And(*cons), check=False)
        out = lo + [piv] + [u for u in up if u != piv]
        return symnp.A([flat.d[i] for i in out], (len(out),), flat.dtype)
    return partition


def run_task(task, patches=None):
    H = Harness(patches, timeout_ms=60000)
    dec = H.load('pero_ocr.decoding.decoders')
    if task['mode'] == 'guard':
        return _run_guard(H, dec, task)
    T, C, k, sel = task['T'], task['C'], task['k'], task['sel']
    zeros = {tuple(z) for z in task.get('zeros', [])}
    blank = C - 1
    letters = [chr(97 + i) for i in range(C - 1)] + [dec.BLANK_SYMBOL]
    pv = [[z3.Real('p_%d_%d' % (t, c)) for c in range(C)] for t in range(T)]
    P = [[None if (t, c) in zeros else pv[t][c] for c in range(C)] for t in range(T)]
    rec = {'selections': [], 'frames': [], 'sel': []}
    symnp.argpartition = _argpartition_stub(rec)
    symnp.partition = _partition_stub(rec)
    K = 'C02:beam:'
    # the final ordering of the bag is not part of the property (and sorting symbolic scores would fork on every comparison)
    dec.BagOfHypotheses.sort = lambda self: None

    # -- instrumentation (wrappers around the loaded module's own functions) ------------------------------------
    real_fnp = dec.find_new_prefixes

    def fnp(prev_l_last, best_inds, A_prev, blank_ind):
        r = real_fnp(prev_l_last, best_inds, A_prev, blank_ind)
        rec['frames'].append({'before': [tuple(x) for x in A_prev], 'after': [tuple(x) for x in r[0]]})
        return r
    dec.find_new_prefixes = fnp
    real_topk = dec.top_k

    def topk(a, k, reverse=False):
        rec['totals'] = a.copy()
        return real_topk(a, k, reverse)
    dec.top_k = topk

    def selector_all(l):
        r = (symnp.arange(len(l)),)
        rec['sel'].append(list(r[0].d))
        return r

    def selector_default(l):
        r = dec.select_relevant_logits(l)
        rec['sel'].append([int(x) for x in r[0].d])
        return r

    def case(m_, **kw):
        c = {'mode': 'beam', 'T': T, 'C': C, 'k': k, 'sel': sel,
             'P': [[(0 if P[t][c_] is None else mv(m_, S(pv[t][c_]))) for c_ in range(C)] for t in range(T)]}
        c.update(kw)
        return c

    def body():
        for key in ('selections', 'frames', 'sel'):
            del rec[key][:]
        for t in range(T):
            row = [x for x in P[t] if x is not None]
            for x in row:
                core.assume(x > 0)
                logp.declare_pos(x)
            core.assume(sum(row) == 1)
        M = symnp.A([LP(P[t][c]) if P[t][c] is not None else LP(z3.RealVal(0), True) for t in range(T) for c in range(C)], (T, C))
        d = dec.CTCPrefixLogRawNumpyDecoder(letters, k, relevant_logits_selector=selector_all if sel == 'all' else selector_default)
        boh = d(M)
        return [(h.transcript, h.vis_sc, h.lm_sc) for h in boh]

    if task.get('split_only'):
        return H.result(prefixes=H.split(body, task['split_only']))
    full_ref = ctc_reference(P, T, C)
    for p, res, exc in H.explore(body, root=task.get('prefix')):
        if exc is not None:
            H.fail(K + 'exception:' + type(exc).__name__, 'raised %r' % (exc,), lambda m_: case(m_))
            continue
        got = lambda m_: [[t_, (mv(m_, S(sc.p)) if isinstance(sc, LP) and not sc.zero else 0)] for t_, sc, _ in res]
        ts_ = [t_ for t_, _, _ in res]
        # (a) pairwise distinct transcripts
        if len(set(ts_)) != len(ts_):
            H.fail(K + 'duplicate-transcript', 'the bag contains the same transcript twice', lambda m_: case(m_, got=got(m_)))
            continue
        # the pruned-symbol mask of this path (default selector): symbols not selected in a frame count as probability 0
        mask = [[True] * C for _ in range(T)]
        for t in range(T):
            if t < len(rec['sel']):
                for c in range(C - 1):
                    mask[t][c] = c in rec['sel'][t]
        pruned_sel = any(not all(r) for r in mask)
        # (b) never more than the true CTC probability
        okb = True
        for t_, sc, _ in res:
            key = tuple(letters.index(ch) for ch in t_)
            sp = sc.p if isinstance(sc, LP) and not sc.zero else z3.RealVal(0)
            rf = full_ref.get(key, z3.RealVal(0))
            if logp.poly_nonneg(rf - sp):
                H.obligations += 1
                continue
            if not H.claim(sp <= rf, K + 'over-count', 'visual score of %r exceeds its true CTC probability' % (t_,),
                           lambda m_: case(m_, got=got(m_), transcript=t_)):
                okb = False
        if not okb:
            continue
        # (d) frame-synchronous reference prefix beam search, following the recorded beams
        ref_beam = {(): (z3.RealVal(1), z3.RealVal(0))}        # prefix -> (Pb, Pnb) as probabilities
        okd = True
        fi = 0
        for t in range(T):
            pm = [P[t][c] if (P[t][c] is not None and mask[t][c]) else None for c in range(C)]
            pb_ = P[t][blank]
            selected = [c for c in range(C - 1) if mask[t][c]]
            cand = {}
            for y, (b_, nb_) in ref_beam.items():
                st_b = (b_ + nb_) * pb_ if pb_ is not None else z3.RealVal(0)
                st_nb = nb_ * pm[y[-1]] if (y and pm[y[-1]] is not None) else z3.RealVal(0)
                e = cand.setdefault(y, [z3.RealVal(0), z3.RealVal(0)])
                e[0] = e[0] + st_b
                e[1] = e[1] + st_nb
                for c in selected:
                    if pm[c] is None:
                        continue
                    add = pm[c] * (b_ + (nb_ if not (y and y[-1] == c) else z3.RealVal(0)))
                    e2 = cand.setdefault(y + (c,), [z3.RealVal(0), z3.RealVal(0)])
                    e2[1] = e2[1] + add
            if not selected:
                # all symbols pruned in this frame: only blanks are emitted, the beam is unchanged
                ref_beam = {y: (cand[y][0], z3.RealVal(0)) for y in ref_beam}
                continue
            if fi >= len(rec['frames']):
                okd = H.fail(K + 'frames', 'fewer beam updates than frames with selected symbols', lambda m_: case(m_))
                break
            newbeam = rec['frames'][fi]['after']
            fi += 1
            if len(set(newbeam)) != len(newbeam):
                okd = H.fail(K + 'duplicate-prefix', 'the beam holds the same prefix twice after frame %d' % t, lambda m_: case(m_, frame=t))
                break
            nonzero = [y for y, (b_, nb_) in cand.items() if not logp._poly_zero(b_ + nb_)]
            want = min(k, len(nonzero))
            if len(newbeam) != want or any(y not in cand for y in newbeam):
                okd = H.fail(K + 'beam-size', 'beam after frame %d has %d prefixes, reference keeps %d' % (t, len(newbeam), want),
                             lambda m_: case(m_, frame=t, beam=[list(y) for y in newbeam]))
                break
            # kept prefixes must score at least as high as every dropped candidate
            dropped = [y for y in nonzero if y not in newbeam]
            conj = []
            for y in newbeam:
                sy = cand[y][0] + cand[y][1]
                for z in dropped:
                    sz = cand[z][0] + cand[z][1]
                    if not logp.poly_nonneg(sy - sz):
                        conj.append(sy >= sz)
            if conj and not H.claim(z3.And(*conj), K + 'not-k-best', 'after frame %d the beam is not a set of k best-scoring prefixes' % t,
                                    lambda m_: case(m_, frame=t, beam=[list(y) for y in newbeam])):
                okd = False
                break
            ref_beam = {y: (cand[y][0], cand[y][1]) for y in newbeam}
        if not okd:
            continue
        exp = {tuple(y): z3.simplify(b_ + nb_, som=True) for y, (b_, nb_) in ref_beam.items()}
        gotd = {}
        for t_, sc, _ in res:
            gotd[tuple(letters.index(ch) for ch in t_)] = sc.p if isinstance(sc, LP) and not sc.zero else z3.RealVal(0)
        if set(gotd) != set(exp):
            H.fail(K + 'beam-differs', 'returned transcripts differ from the reference prefix beam search', lambda m_: case(m_, got=got(m_),
                   reference=[list(y) for y in exp]))
            continue
        for y in exp:
            if logp._poly_zero(gotd[y] - exp[y]):
                H.obligations += 1
                continue
            H.claim(gotd[y] == exp[y], K + 'score-differs', 'score of %r differs from the reference prefix beam search' % (y,),
                    lambda m_: case(m_, got=got(m_), transcript=list(y)))
        # (c) nothing pruned: every transcript of non-zero probability, with exactly its CTC probability
        if k >= BIG and not pruned_sel:
            nz = {y for y, pol in full_ref.items() if not logp._poly_zero(pol)}
            if set(gotd) != nz:
                H.fail(K + 'unpruned-missing', 'unpruned search does not return every transcript of non-zero probability',
                       lambda m_: case(m_, got=got(m_)))
            else:
                for y in nz:
                    if not logp._poly_zero(gotd[y] - full_ref[y]):
                        H.claim(gotd[y] == full_ref[y], K + 'unpruned-score', 'unpruned score differs from the CTC probability',
                                lambda m_: case(m_, got=got(m_), transcript=list(y)))
                    else:
                        H.obligations += 1
    # witnesses by guided (concolic) runs: random normalised matrices, the symbolic result evaluated on them
    import random
    import fractions
    rnd = random.Random(hash((T, C, k, sel, str(sorted(zeros)))) & 0xffff)
    for _ in range(4):
        vals = []
        for t in range(T):
            ws = []
            for c in range(C):
                if P[t][c] is None:
                    continue
                r_ = rnd.random()
                ws.append((pv[t][c], fractions.Fraction(1, 10 ** 6) if r_ < 0.15 else fractions.Fraction(rnd.randint(1, 997), 1000)))
            tot = sum(w for _, w in ws)
            vals.extend([(v, w / tot) for v, w in ws])
        g = core.Guide(vals)
        res, exc = core.guided_run(body, g, H.ctx)
        if exc is not None or res is None:
            continue
        H.witnesses.append(jsonable_case(case(g, expect=[[t_, (g.value(S(sc.p)) if isinstance(sc, LP) and not sc.zero else 0)] for t_, sc, _ in res])))
    return H.result()


def jsonable_case(c):
    from symx.runner import jsonable
    return jsonable(c)


def _run_guard(H, dec, task):
    """unnormalised input is rejected rather than decoded"""
    T, C = task['T'], task['C']
    letters = [chr(97 + i) for i in range(C - 1)] + [dec.BLANK_SYMBOL]
    pv = [[z3.Real('p_%d_%d' % (t, c)) for c in range(C)] for t in range(T)]
    rec = {'selections': []}
    symnp.argpartition = _argpartition_stub(rec)
    symnp.partition = _partition_stub(rec)
    K = 'C02:guard:'

    def case(m_, **kw):
        c = {'mode': 'guard', 'T': T, 'C': C, 'P': [[mv(m_, S(x)) for x in row] for row in pv]}
        c.update(kw)
        return c

    def body():
        for row in pv:
            for x in row:
                core.assume(z3.And(x > 0, x < 4))
                logp.declare_pos(x)
        M = symnp.A([LP(pv[t][c]) for t in range(T) for c in range(C)], (T, C))
        d = dec.CTCPrefixLogRawNumpyDecoder(letters, 1, relevant_logits_selector=lambda l: (symnp.arange(len(l)),))
        try:
            d(M)
        except ValueError as e:
            if 'normalized' in str(e):
                return 'rejected'
            raise
        return 'decoded'

    eps = z3.RealVal('1/100000')
    for p, res, exc in H.explore(body, max_paths=4000):
        if exc is not None:
            H.fail(K + 'exception:' + type(exc).__name__, 'raised %r' % (exc,), lambda m_: case(m_))
            continue
        dev = [z3.If(sum(row) - 1 >= 0, sum(row) - 1, 1 - sum(row)) for row in pv]
        off = z3.Or(*[d_ > eps for d_ in dev])
        # counterexamples are preferred away from the 1e-5 knife edge (the real code compares floats)
        sums = [sum(row) for row in pv]
        qs = dev + [z3.If(s_ >= 1, s_ - 1, 1 - s_) for s_ in (core.lift(core.smax([S(x) for x in sums])), core.lift(core.smin([S(x) for x in sums])))]
        robust = [z3.Or(q < eps * z3.RealVal('1/2'), q > eps * 2) for q in qs]
        if res == 'rejected':
            H.claim(off, K + 'spurious-rejection', 'a matrix normalised within 1e-5 was rejected', lambda m_: case(m_), robust=robust)
        else:
            H.claim(z3.Not(off), K + 'decoded-unnormalised', 'a matrix with a row off by more than 1e-5 was decoded', lambda m_: case(m_), robust=robust)
        H.witness(lambda m_: case(m_, expect=res), extra=robust)
    return H.result()


_D = 'pero_ocr/decoding/decoders.py'
_M = 'pero_ocr/decoding/multisort.py'


def canaries(tier):
    q = [t for t in tasks('quick') if t['mode'] == 'beam' and t['T'] <= 3 and 'zeros' not in t and not t.get('split')]
    qa = [t for t in q if t['sel'] == 'all']
    return [
        {'name': 'prefix joining removed (mass of a joined prefix counted twice / two entries for one prefix)',
         'patches': [(_D, '            adjust_for_prefix_joining(total_Pnb, prefixes, reduced_last_chars)\n', '')], 'tasks': qa},
        {'name': 'joined mass not removed from its source entry',
         'patches': [(_D, '        P_visual[joinable_prefix_ind, last_chars[p_ind]] = -np.inf\n', '')], 'tasks': qa},
        {'name': 'Pb kept for extended prefixes (mask inverted)',
         'patches': [(_D, 'Pb[best_inds[1] != total_P.shape[1]-1] = self.LOG_ZERO_PROBABILITY', 'Pb[best_inds[1] == total_P.shape[1]-1] = self.LOG_ZERO_PROBABILITY')], 'tasks': qa},
        {'name': 'continuation mask one/zero swapped',
         'patches': [(_D, 'last_chars, one=0.0, zero=-np.inf)', 'last_chars, one=-np.inf, zero=0.0)')], 'tasks': qa},
        {'name': 'all-pruned frame forgets to clear Pnb',
         'patches': [(_D, '                Pnb[...] = self.LOG_ZERO_PROBABILITY\n', '')],
         'tasks': [t for t in tasks('quick') if t['mode'] == 'beam' and t['sel'] == 'default' and t['T'] >= 2]},
        {'name': 'top_k keeps the k smallest', 'patches': [(_M, 'top_k_inds = np.argpartition(flat, len(flat)-k)[-k:]', 'top_k_inds = np.argpartition(flat, len(flat)-k)[:k]')],
         'tasks': [t for t in qa if t['k'] in (1, 2) and t['T'] >= 2], 'error_counts': True},
        {'name': 'normalisation guard looks at the largest row sum only',
         'patches': [(_D, 'return np.max(np.abs(sums - 1))', 'return np.abs(np.max(sums) - 1)')],
         'tasks': [t for t in tasks('quick') if t['mode'] == 'guard']},
    ]

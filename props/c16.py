"""C16 -- every reported confidence is a probability derived from normalised posteriors.

Symbolic execution of confidence_estimation.py, the confidence helpers of
page_parser.py, BagOfHypotheses.{total_scores,posteriors,confidence,
transcript_confidence} and TextLine.get_dense_logits/get_full_logprobs over
logit matrices in the LogP domain (a logit is stored as its weight w > 0, so
log-softmax is w / sum(w) and "add a constant to a frame" is w -> lambda*w).
"""
import itertools
import z3

from symx import core
from symx.core import S, SB
from symx import symnp, shims
from symx.logp import LP, NLP
from symx import logp
from symx.harness import Harness, mv

ID = 'C16'

META = {
    'functions': [
        'pero_ocr/core/confidence_estimation.py:get_line_confidence',
        'pero_ocr/core/confidence_estimation.py:get_line_confidence_transformer',
        'pero_ocr/core/confidence_estimation.py:get_letter_confidence',
        'pero_ocr/core/confidence_estimation.py:normalize_logits',
        'pero_ocr/core/confidence_estimation.py:pick_elements',
        'pero_ocr/core/confidence_estimation.py:group_elements_by_symbols',
        'pero_ocr/core/confidence_estimation.py:squeeze',
        'pero_ocr/core/force_alignment.py:align_text',
        'pero_ocr/document_ocr/page_parser.py:PageParser.compute_line_confidence',
        'pero_ocr/document_ocr/page_parser.py:get_prob',
        'pero_ocr/document_ocr/page_parser.py:line_confident_enough',
        'pero_ocr/decoding/bag_of_hypotheses.py:BagOfHypotheses.total_scores',
        'pero_ocr/decoding/bag_of_hypotheses.py:BagOfHypotheses.posteriors',
        'pero_ocr/decoding/bag_of_hypotheses.py:BagOfHypotheses.confidence',
        'pero_ocr/decoding/bag_of_hypotheses.py:BagOfHypotheses.transcript_confidence',
        'pero_ocr/core/layout.py:TextLine.get_dense_logits',
        'pero_ocr/core/layout.py:TextLine.get_full_logprobs',
        'pero_ocr/core/layout.py:log_softmax',
    ],
    'bounds': {
        'quick': 'logit matrices F x C with F <= 3, C = 3 (blank last), every entry a symbolic weight > 0 or pruned '
                 '(sparse-with-floor; all prune patterns for F = 2, a selection for F = 3); labels of length 1..2 '
                 '(symbolic, non-blank), alignment positions symbolic strictly increasing; per-frame scale lambda_t > 0 '
                 'symbolic; hypothesis bags of 1..3 entries with symbolic vis/LM scores, LM score present/absent/mixed, '
                 'symbolic LM weight; thresholds symbolic',
        'thorough': 'F <= 4, labels <= 3, bags <= 4, all prune patterns for F <= 3 in the page-parser confidences',
    },
    'assumptions': [
        'exact real arithmetic (round-off outside the claim); a logit is any real (weight w > 0) or -inf (w = 0, one-hot clause only)',
        'stored sparse entries are != 0.0 (the precondition C09 states); pruned entries read back as the floor -80',
        'alignment positions handed to get_line_confidence are strictly increasing frame indices (what align_text returns: C05); '
        'an end-to-end run with the real align_text is included at the smallest size',
        'exp applied to LM-weighted total scores is an uninterpreted positive strictly increasing function',
    ],
    'outside': ['float round-off / underflow', 'F, C, label and bag sizes beyond the bound', 'word confidences inside ALTO (C06)'],
    'stubs': ['numpy -> symx.symnp', 'scipy.sparse.csc_matrix -> dense store with the != 0 contract',
              'scipy.special.logsumexp / np.logaddexp / np.exp -> LogP domain operations', 'lxml/cv2/shapely/torch -> inert (not reached)'],
}


def _masks(F, C, tier, full_upto):
    n = F * C
    if F <= full_upto:
        return [''.join(b) for b in itertools.product('10', repeat=n)]
    sel = ['1' * n, '0' * n]
    for i in range(n):
        sel.append(''.join('0' if j == i else '1' for j in range(n)))
    sel.append(('10' * n)[:n])
    sel.append(('011' * n)[:n])
    sel.append('0' * C + '1' * (n - C))
    return sorted(set(sel))


def tasks(tier):
    ts = []
    C = 3
    Fmax = 3 if tier == 'quick' else 4
    full_upto = 2 if tier == 'quick' else 3
    for F in range(1, Fmax + 1):
        for mask in _masks(F, C, tier, full_upto):
            ts.append({'mode': 'plc', 'F': F, 'C': C, 'mask': mask})
    # get_line_confidence with a given strictly increasing alignment
    Lmax = 2 if tier == 'quick' else 3
    for F in range(1, Fmax + 1):
        for L in range(1, min(F, Lmax) + 1):
            if F == L:
                ts.append({'mode': 'glc_tr', 'F': F, 'C': C, 'L': L})
                continue
            for mask in _masks(F, C, tier, 1):
                ts.append({'mode': 'glc', 'F': F, 'C': C, 'L': L, 'mask': mask})
            ts.append({'mode': 'glc_onehot', 'F': F, 'C': C, 'L': L})
    ts.append({'mode': 'glc_e2e', 'F': 2, 'C': C, 'L': 1})
    # (the end-to-end run with the real align_text is polynomial arithmetic of degree F in the posteriors; F = 3
    #  does not finish in z3's nlsat, so larger sizes rely on the decomposition: C05 proves what align_text returns,
    #  the 'glc' tasks cover every strictly increasing position vector)
    for F in range(1, Fmax + 1):
        ts.append({'mode': 'letter', 'F': F, 'C': C})
        ts.append({'mode': 'letter_onehot', 'F': F, 'C': C})
    for n in range(1, (3 if tier == 'quick' else 4) + 1):
        for lm in ('all', 'none', 'mixed'):
            if lm == 'mixed' and n == 1:
                continue
            ts.append({'mode': 'boh', 'n': n, 'lm': lm})
    for t in ts:
        if t['mode'] in ('glc',) and t['F'] >= 4:
            t['split'] = 32
    ts.sort(key=lambda t: -(t.get('F', 2) ** 2) * t.get('L', 1))
    return ts


# -- helpers --------------------------------------------------------------------

def _weights(F, C, name='w'):
    return [[z3.Real('%s_%d_%d' % (name, t, c)) for c in range(C)] for t in range(F)]


def _assume_weights(W, mask=None):
    k = 0
    for row in W:
        for w in row:
            if mask is None or mask[k] == '1':
                # stored logit: any real except exactly 0.0 (w = 1)
                core.assume(w > 0)
                logp.declare_pos(w)
            k += 1


def _sparse(loader_mod_layout, W, mask, scale=None):
    """TextLine with csc logits: stored entries LP(w*scale_t), pruned entries 0.0"""
    F, C = len(W), len(W[0])
    d = []
    k = 0
    for t in range(F):
        for c in range(C):
            if mask[k] == '1':
                p = W[t][c] if scale is None else W[t][c] * scale[t]
                d.append(LP(p, nz=True))
            else:
                d.append(0.0)
            k += 1
    a = symnp.A(d, (F, C))
    return loader_mod_layout.TextLine(id='l', logits=shims.csc_matrix(a), characters=['a', 'b'])


def _wcase(m_, W, mask, **kw):
    F, C = len(W), len(W[0])
    c = {'W': [[(mv(m_, S(W[t][c_])) if mask is None or mask[t * C + c_] == '1' else None) for c_ in range(C)]
               for t in range(F)]}
    c['mask'] = mask
    c.update(kw)
    return c


def _in01(x):
    if isinstance(x, (int, float)):
        return z3.BoolVal(0 <= x <= 1)
    e = core.lift(x)
    return z3.And(e >= 0, e <= 1)


def _eqv(a, b):
    if isinstance(a, (int, float)) and isinstance(b, (int, float)):
        return z3.BoolVal(a == b)
    return core.lift(a) == core.lift(b)


def _pval(x):
    """probability-domain z3 term of an LP / float log-value"""
    if isinstance(x, LP):
        return x.p
    if isinstance(x, float) and x == float('-inf'):
        return z3.RealVal(0)
    if isinstance(x, (int, float)):
        import math
        return z3.RealVal(1) if x == 0 else z3.RealVal(repr(math.exp(x)))
    if isinstance(x, S):
        r = core.uexp(x)
        return core.lift(r) if isinstance(r, S) else z3.RealVal(1 if r == 1.0 else repr(r))
    raise TypeError('not a log-probability: %r' % (x,))


def _margins(dense):
    """witness models away from ties between the posteriors of a frame (the real code runs in floats)"""
    F, C = dense.shape
    ex = []
    for t in range(F):
        ps = []
        for c in range(C):
            x = dense[t, c]
            if isinstance(x, LP) and not any(x.p.eq(y) for y in ps):
                ps.append(x.p)
        for i in range(len(ps)):
            for j in range(i + 1, len(ps)):
                ex.append(z3.Or(ps[i] - ps[j] > z3.RealVal('1/1000'), ps[j] - ps[i] > z3.RealVal('1/1000')))
    return ex


def run_task(task, patches=None):
    H = Harness(patches, timeout_ms=120000)
    mode = task['mode']
    fn = globals()['_run_' + mode]
    return fn(H, task)


# -- page-parser confidences -------------------------------------------------------

def _run_plc(H, task):
    layout = H.load('pero_ocr.core.layout')
    pp = H.load('pero_ocr.document_ocr.page_parser')
    F, C, mask = task['F'], task['C'], task['mask']
    W = _weights(F, C)
    lam = [z3.Real('lam_%d' % t) for t in range(F)]
    tha, thb = S(z3.Real('th_a')), S(z3.Real('th_b'))
    K = 'C16:plc:'

    inv_rows = all(len(set(mask[t * C:(t + 1) * C])) == 1 for t in range(F))

    def case(m_, **kw):
        return _wcase(m_, W, mask, mode='plc', lam=[mv(m_, S(l)) for l in lam], th_a=mv(m_, tha), th_b=mv(m_, thb), **kw)

    def body():
        _assume_weights(W, mask)
        for t in range(F):
            core.assume(z3.And(lam[t] > 0))
            logp.declare_pos(lam[t])
        line = _sparse(layout, W, mask)
        conf = pp.PageParser.compute_line_confidence(line)
        dense = line.get_full_logprobs()
        conf2 = None
        if inv_rows:
            # rows that are entirely pruned are not scaled (the floor is a constant); mixed rows are not invariant
            conf2 = pp.PageParser.compute_line_confidence(_sparse(layout, W, mask, lam))
        lg = line.get_dense_logits()
        ce_a = pp.line_confident_enough(lg, tha)
        ce_b = pp.line_confident_enough(lg, thb)
        return conf, conf2, dense, ce_a, ce_b

    if task.get('split_only'):
        return H.result(prefixes=H.split(body, task['split_only']))
    for p, res, exc in H.explore(body, root=task.get('prefix')):
        if exc is not None:
            H.fail(K + 'exception:' + type(exc).__name__, 'raised %r' % (exc,), lambda m_: case(m_))
            continue
        conf, conf2, dense, ce_a, ce_b = res
        H.claim(_in01(conf), K + 'range', 'compute_line_confidence outside [0, 1]', lambda m_: case(m_, got=mv(m_, conf)))
        # row-normalised posteriors
        rr = []
        for t in range(F):
            tot = sum(_pval(dense[t, c]) for c in range(C))
            if all(isinstance(dense[t, c], float) for c in range(C)):
                rr.append(z3.And(tot > 1 - 1e-9, tot < 1 + 1e-9))     # fully pruned row: computed in floats
            else:
                rr.append(tot == 1)
        rows = z3.And(*rr)
        H.claim(rows, K + 'normalised', 'get_full_logprobs rows do not exponentiate to 1', lambda m_: case(m_))
        # invariance only for fully stored rows or rows where nothing is stored (the floor is not scaled)
        if inv_rows:
            # rows that are entirely pruned are uniform under both runs
            H.claim(_eqv(conf, conf2), K + 'shift-invariance',
                    'line confidence changes when a constant is added to all logits of a frame',
                    lambda m_: case(m_, got=[mv(m_, conf), mv(m_, conf2)]))
        mono = z3.Implies(z3.And(core.zb(ce_a), thb.e <= tha.e), core.zb(ce_b))
        H.claim(mono, K + 'threshold-monotone', 'line_confident_enough is not monotone in its threshold', lambda m_: case(m_))
        H.witness(lambda m_: case(m_, expect={'conf': mv(m_, conf), 'ce_a': mv(m_, ce_a) if isinstance(ce_a, SB) else bool(ce_a)}),
                  extra=_margins(dense))
    return H.result()


# -- get_line_confidence ------------------------------------------------------------

def _labels(L, C):
    labs = [S(z3.Int('lab%d' % i)) for i in range(L)]
    return labs


def _glc_common(H, task, onehot=False):
    layout = H.load('pero_ocr.core.layout')
    ce = H.load('pero_ocr.core.confidence_estimation')
    return layout, ce


def _run_glc(H, task):
    layout, ce = _glc_common(H, task)
    F, C, L, mask = task['F'], task['C'], task['L'], task['mask']
    W = _weights(F, C)
    lam = [z3.Real('lam_%d' % t) for t in range(F)]
    labs = _labels(L, C)
    pos = [S(z3.Int('pos%d' % i)) for i in range(L)]
    K = 'C16:glc:'
    inv_rows = all(len(set(mask[t * C:(t + 1) * C])) == 1 for t in range(F))

    def case(m_, **kw):
        return _wcase(m_, W, mask, mode='glc', labels=mv(m_, labs), positions=mv(m_, pos),
                      lam=[mv(m_, S(l)) for l in lam], **kw)

    def body():
        _assume_weights(W, mask)
        for t in range(F):
            core.assume(lam[t] > 0)
            logp.declare_pos(lam[t])
        for l in labs:
            core.assume(z3.And(l.e >= 0, l.e < C - 1))
        for i in range(L):
            core.assume(z3.And(pos[i].e >= 0, pos[i].e < F))
            if i:
                core.assume(pos[i - 1].e < pos[i].e)
        line = _sparse(layout, W, mask)
        al = symnp.asarray([core.concretize(x) for x in pos])
        lb = [core.concretize(x) for x in labs]
        conf = ce.get_line_confidence(line, lb, aligned_letters=al)
        conf2 = ce.get_line_confidence(_sparse(layout, W, mask, lam), lb, aligned_letters=al) if inv_rows else None
        return conf, conf2

    if task.get('split_only'):
        return H.result(prefixes=H.split(body, task['split_only']))
    for p, res, exc in H.explore(body, root=task.get('prefix')):
        if exc is not None:
            H.fail(K + 'exception:' + type(exc).__name__, 'raised %r' % (exc,), lambda m_: case(m_))
            continue
        conf, conf2 = res
        cl = list(conf.d)
        if len(cl) != L:
            H.fail(K + 'shape', 'expected one confidence per label', lambda m_: case(m_))
            continue
        H.claim(z3.And(*[_in01(x) for x in cl]), K + 'range', 'a character confidence lies outside [0, 1]',
                lambda m_: case(m_, got=mv(m_, cl)))
        if inv_rows:
            H.claim(z3.And(*[_eqv(a, b) for a, b in zip(cl, conf2.d)]), K + 'shift-invariance',
                    'character confidences change when a constant is added to all logits of a frame',
                    lambda m_: case(m_, got=[mv(m_, cl), mv(m_, list(conf2.d))]))
        H.witness(lambda m_: case(m_, expect=mv(m_, cl)))
    return H.result()


def _run_glc_tr(H, task):
    """as many frames as labels: the transformer branch (posterior of each label at its own frame)"""
    layout, ce = _glc_common(H, task)
    F, C, L = task['F'], task['C'], task['L']
    mask = '1' * (F * C)
    W = _weights(F, C)
    lam = [z3.Real('lam_%d' % t) for t in range(F)]
    labs = _labels(L, C)
    K = 'C16:glc_tr:'

    def case(m_, **kw):
        return _wcase(m_, W, mask, mode='glc_tr', labels=mv(m_, labs), lam=[mv(m_, S(l)) for l in lam], **kw)

    def body():
        _assume_weights(W, mask)
        for t in range(F):
            core.assume(lam[t] > 0)
            logp.declare_pos(lam[t])
        for l in labs:
            core.assume(z3.And(l.e >= 0, l.e < C))
        lb = [core.concretize(x) for x in labs]
        conf = ce.get_line_confidence(_sparse(layout, W, mask), lb)
        conf2 = ce.get_line_confidence(_sparse(layout, W, mask, lam), lb)
        return lb, conf, conf2

    for p, res, exc in H.explore(body):
        if exc is not None:
            H.fail(K + 'exception:' + type(exc).__name__, 'raised %r' % (exc,), lambda m_: case(m_))
            continue
        lb, conf, conf2 = res
        cl = list(conf.d)
        H.claim(z3.And(*[_in01(x) for x in cl]), K + 'range', 'a character confidence lies outside [0, 1]',
                lambda m_: case(m_, got=mv(m_, cl)))
        okd = True
        for i, a in enumerate(cl):
            df = logp.definition(core.lift(a)) if isinstance(a, S) else None
            if df is None or not logp._poly_zero(df[0] * sum(W[i]) - W[i][lb[i]] * df[1]):
                okd = False
        if not okd:
            H.fail(K + 'posterior', 'transformer-branch confidence is not the row-normalised posterior of the label',
                   lambda m_: case(m_, got=mv(m_, cl)))
        H.claim(z3.And(*[_eqv(a, b) for a, b in zip(cl, conf2.d)]), K + 'shift-invariance',
                'character confidences change when a constant is added to all logits of a frame',
                lambda m_: case(m_, got=[mv(m_, cl), mv(m_, list(conf2.d))]))
        H.witness(lambda m_: case(m_, expect=mv(m_, cl)))
    return H.result()


def _run_glc_onehot(H, task):
    """one-hot posteriors along a valid alignment: every confidence is 1"""
    layout, ce = _glc_common(H, task)
    F, C, L = task['F'], task['C'], task['L']
    labs = _labels(L, C)
    hot = [S(z3.Int('hot%d' % t)) for t in range(F)]    # CTC state per frame
    pos = [S(z3.Int('pos%d' % i)) for i in range(L)]
    K = 'C16:glc_onehot:'
    N = 2 * L + 1

    def case(m_, **kw):
        c = {'mode': 'glc_onehot', 'F': F, 'C': C, 'labels': mv(m_, labs), 'states': mv(m_, hot), 'positions': mv(m_, pos)}
        c.update(kw)
        return c

    def body():
        for l in labs:
            core.assume(z3.And(l.e >= 0, l.e < C - 1))
        for i in range(L - 1):
            pass
        # a valid CTC state path
        core.assume(z3.Or(hot[0].e == 0, hot[0].e == 1))
        core.assume(z3.Or(hot[-1].e == N - 1, hot[-1].e == N - 2))
        for t in range(F):
            core.assume(z3.And(hot[t].e >= 0, hot[t].e < N))
        lb = [core.concretize(x) for x in labs]
        st = [core.concretize(x) for x in hot]
        for t in range(F - 1):
            d = st[t + 1] - st[t]
            if d not in (0, 1, 2):
                raise core.Abort('invalid')
            if d == 2 and (st[t] % 2 == 0 or lb[st[t] // 2] == lb[st[t] // 2 + 1]):
                raise core.Abort('invalid')
        # positions: any frame aligned to character i
        ps = []
        for i in range(L):
            core.assume(z3.And(pos[i].e >= 0, pos[i].e < F))
            pi = core.concretize(pos[i])
            if st[pi] != 2 * i + 1:
                raise core.Abort('position not on the character')
            ps.append(pi)
        sym = [(C - 1) if s % 2 == 0 else lb[s // 2] for s in st]
        d = []
        for t in range(F):
            for c in range(C):
                d.append(LP(z3.RealVal(1)) if c == sym[t] else LP(z3.RealVal(0), True))
        # one-hot rows are log-probs 0 / -inf: dense (not sparse) storage, as log_probs argument
        lp = symnp.A(d, (F, C))

        class _L:
            logits = lp
        conf = ce.get_line_confidence(_L(), lb, aligned_letters=symnp.asarray(ps), log_probs=lp)
        return conf

    for p, res, exc in H.explore(body):
        if exc is not None:
            H.fail(K + 'exception:' + type(exc).__name__, 'raised %r' % (exc,), lambda m_: case(m_))
            continue
        cl = list(res.d)
        H.claim(z3.And(*[_eqv(x, 1) for x in cl]), K + 'not-one', 'one-hot posteriors do not give confidence 1',
                lambda m_: case(m_, got=mv(m_, cl)))
        H.witness(lambda m_: case(m_, expect=mv(m_, cl)))
    return H.result()


def _run_glc_e2e(H, task):
    """the real align_text (NLP costs) feeding get_line_confidence"""
    layout, ce = _glc_common(H, task)
    F, C, L = task['F'], task['C'], task['L']
    mask = '1' * (F * C)
    W = _weights(F, C)
    labs = _labels(L, C)
    K = 'C16:glc_e2e:'

    def case(m_, **kw):
        return _wcase(m_, W, mask, mode='glc_e2e', labels=mv(m_, labs), **kw)

    def body():
        _assume_weights(W, mask)
        for l in labs:
            core.assume(z3.And(l.e >= 0, l.e < C - 1))
        lb = symnp.asarray([core.concretize(x) for x in labs])
        if any(lb.d[i] == lb.d[i + 1] for i in range(L - 1)) and F < 2 * L - 1 + 0:
            pass
        line = _sparse(layout, W, mask)
        return ce.get_line_confidence(line, lb)

    if task.get('split_only'):
        return H.result(prefixes=H.split(body, task['split_only']))
    for p, res, exc in H.explore(body, root=task.get('prefix')):
        if exc is not None:
            if isinstance(exc, ValueError) and 'align' in str(exc):
                continue        # not alignable (e.g. repeated label without room for the blank): outside this clause
            H.fail(K + 'exception:' + type(exc).__name__, 'raised %r' % (exc,), lambda m_: case(m_))
            continue
        cl = list(res.d)
        H.claim(z3.And(*[_in01(x) for x in cl]), K + 'range', 'a character confidence lies outside [0, 1]',
                lambda m_: case(m_, got=mv(m_, cl)))
        H.witness(lambda m_: case(m_, expect=mv(m_, cl)))
    return H.result()


# -- get_letter_confidence -----------------------------------------------------------

def _run_letter(H, task):
    ce = H.load('pero_ocr.core.confidence_estimation')
    F, C = task['F'], task['C']
    W = _weights(F, C)
    lam = [z3.Real('lam_%d' % t) for t in range(F)]
    ali = [S(z3.Int('ali%d' % t)) for t in range(F)]
    blank = C - 1
    K = 'C16:letter:'

    def case(m_, **kw):
        return _wcase(m_, W, None, mode='letter', alignment=mv(m_, ali), lam=[mv(m_, S(l)) for l in lam], **kw)

    def body():
        _assume_weights(W)
        for t in range(F):
            core.assume(lam[t] > 0)
            logp.declare_pos(lam[t])
            core.assume(z3.And(ali[t].e >= 0, ali[t].e < C))
        al = [core.concretize(x) for x in ali]
        lg = symnp.A([LP(W[t][c]) for t in range(F) for c in range(C)], (F, C))
        lg2 = symnp.A([LP(W[t][c] * lam[t]) for t in range(F) for c in range(C)], (F, C))
        return al, ce.get_letter_confidence(lg, al, blank), ce.get_letter_confidence(lg2, al, blank)

    for p, res, exc in H.explore(body):
        if exc is not None:
            H.fail(K + 'exception:' + type(exc).__name__, 'raised %r' % (exc,), lambda m_: case(m_))
            continue
        al, r1, r2 = res
        n_letters = len([1 for i, s in enumerate(al) if s != blank and (i == 0 or al[i - 1] != s)])
        if len(r1) != n_letters:
            H.fail(K + 'count', '%d confidences for %d letters' % (len(r1), n_letters), lambda m_: case(m_))
            continue
        if r1:
            ps = [_pval(x) for x in r1]
            H.claim(z3.And(*[z3.And(q > 0, q <= 1) for q in ps]), K + 'range',
                    'a letter confidence is not the log of a probability in (0, 1]', lambda m_: case(m_, got=[mv(m_, S(q)) for q in ps]))
            H.claim(z3.And(*[q == _pval(y) for q, y in zip(ps, r2)]), K + 'shift-invariance',
                    'letter confidences change when a constant is added to all logits of a frame',
                    lambda m_: case(m_, got=[mv(m_, S(q)) for q in ps]))
        H.witness(lambda m_: case(m_, expect=[mv(m_, S(_pval(x))) for x in r1]))
    return H.result()


def _run_letter_onehot(H, task):
    ce = H.load('pero_ocr.core.confidence_estimation')
    F, C = task['F'], task['C']
    ali = [S(z3.Int('ali%d' % t)) for t in range(F)]
    blank = C - 1
    K = 'C16:letter_onehot:'

    def case(m_, **kw):
        c = {'mode': 'letter_onehot', 'F': F, 'C': C, 'alignment': mv(m_, ali)}
        c.update(kw)
        return c

    def body():
        for t in range(F):
            core.assume(z3.And(ali[t].e >= 0, ali[t].e < C))
        al = [core.concretize(x) for x in ali]
        lg = symnp.A([LP(z3.RealVal(1)) if c == al[t] else LP(z3.RealVal(0), True) for t in range(F) for c in range(C)], (F, C))
        return ce.get_letter_confidence(lg, al, blank)

    for p, res, exc in H.explore(body):
        if exc is not None:
            H.fail(K + 'exception:' + type(exc).__name__, 'raised %r' % (exc,), lambda m_: case(m_))
            continue
        if res:
            H.claim(z3.And(*[_pval(x) == 1 for x in res]), K + 'not-one', 'one-hot posteriors do not give letter confidence log 1',
                    lambda m_: case(m_))
        H.witness(lambda m_: case(m_, expect=[1 for _ in res]))
    return H.result()


# -- hypothesis bags -------------------------------------------------------------------

def _run_boh(H, task):
    bohm = H.load('pero_ocr.decoding.bag_of_hypotheses')
    H.ctx.lazy_products = True       # lm_weight * lm_sc: a named product, its definition a lazy axiom
    n, lm = task['n'], task['lm']
    vis = [S(z3.Real('vis%d' % i)) for i in range(n)]
    lms = [S(z3.Real('lm%d' % i)) for i in range(n)]
    wt = S(z3.Real('lm_weight'))
    wt2 = S(z3.Real('lm_weight_2'))
    K = 'C16:boh:'
    has_lm = [lm == 'all' or (lm == 'mixed' and i % 2 == 0) for i in range(n)]

    def case(m_, **kw):
        c = {'mode': 'boh', 'vis': mv(m_, vis), 'lm': [mv(m_, lms[i]) if has_lm[i] else None for i in range(n)],
             'lm_weight': mv(m_, wt), 'lm_weight_2': mv(m_, wt2)}
        c.update(kw)
        return c

    state = {}

    def body():
        bag = bohm.BagOfHypotheses(lm_weight=wt)
        for i in range(n):
            bag.add('t%d' % i, vis[i], lms[i] if has_lm[i] else None)
        tot = bag.total_scores()
        post = bag.posteriors()
        conf = bag.confidence()
        tcs = [bag.transcript_confidence('t%d' % i) for i in range(n)]
        missing = bag.transcript_confidence('not there')
        # the same bag queried again under another LM weight (a weight sweep over one n-best list)
        bag.lm_weight = wt2
        state['post2'] = bag.posteriors()
        state['conf2'] = bag.confidence()
        return tot, post, conf, tcs, missing

    for p, res, exc in H.explore(body):
        if exc is not None:
            H.fail(K + 'exception:' + type(exc).__name__, 'raised %r' % (exc,), lambda m_: case(m_))
            continue
        tot, post, conf, tcs, missing = res
        use_lm = all(has_lm)
        exp_tot = [vis[i].e + wt.e * lms[i].e if use_lm else vis[i].e for i in range(n)]
        H.claim(z3.And(*[core.lift(a) == b for a, b in zip(tot, exp_tot)]), K + 'totals',
                'total score is not visual + weight * LM score', lambda m_: case(m_))
        ps = [_pval(x) for x in post]
        H.claim(z3.And(*[q > 0 for q in ps] + [sum(ps) == 1]), K + 'posteriors-sum',
                'posteriors do not exponentiate to positive numbers summing to 1', lambda m_: case(m_, got=[mv(m_, S(q)) for q in ps]))
        ce = core.lift(conf)
        H.claim(z3.And(ce > 0, ce <= 1), K + 'confidence-range', 'bag confidence outside (0, 1]', lambda m_: case(m_, got=mv(m_, conf)))
        # confidence is the posterior of a hypothesis with maximal total score
        tl = [core.lift(x) for x in tot]
        arg = z3.Or(*[z3.And(ce == ps[i], *[tl[i] >= tl[j] for j in range(n)]) for i in range(n)])
        H.claim(arg, K + 'confidence-argmax', 'bag confidence is not the posterior of a hypothesis maximising the total score',
                lambda m_: case(m_, got=mv(m_, conf)))
        H.claim(z3.And(*[z3.And(core.lift(t) == ps[i]) for i, t in enumerate(tcs)]), K + 'transcript-confidence',
                'transcript_confidence is not the posterior of that transcript', lambda m_: case(m_))
        if not (isinstance(missing, float) and missing == 0.0):
            H.fail(K + 'missing', 'confidence of an absent transcript is not 0', lambda m_: case(m_))
        ps2 = [_pval(x) for x in state['post2']]
        ce2 = core.lift(state['conf2'])
        H.claim(z3.And(*[q > 0 for q in ps2] + [sum(ps2) == 1, ce2 > 0, ce2 <= 1]), K + 'posteriors-sum-reweighted',
                'after the LM weight of the bag was changed its posteriors no longer sum to 1 / its confidence leaves (0, 1]',
                lambda m_: case(m_, got=[mv(m_, S(q)) for q in ps2]))
        H.witness(lambda m_: case(m_, expect={'conf': mv(m_, conf)}))
    return H.result()


_CE = 'pero_ocr/core/confidence_estimation.py'
_PP = 'pero_ocr/document_ocr/page_parser.py'
_BH = 'pero_ocr/decoding/bag_of_hypotheses.py'


def canaries(tier):
    q = tasks('quick')
    glc = [t for t in q if t['mode'] in ('glc', 'glc_onehot') and t['F'] <= 3]
    return [
        {'name': 'drop the max(0, .) clip', 'patches': [(_CE, 'confidences[i] = max(0, label_prob - other_prob)', 'confidences[i] = label_prob - other_prob')],
         'tasks': glc},
        {'name': 'normalize_logits without subtraction', 'patches': [(_CE, 'return logits - logsumexp(logits, axis=1)[:, np.newaxis]', 'return logits')],
         'tasks': [t for t in q if t['mode'].startswith('letter')]},
        {'name': 'posteriors from visual scores only', 'patches': [(_BH, '        total_scores = self.total_scores()\n        total_prob = logsumexp(total_scores)\n        return [s - total_prob for s in total_scores]',
                                                                   '        total_scores = self.total_scores()\n        total_prob = logsumexp(total_scores)\n        return [hyp.vis_sc - total_prob for hyp in self._hyps]')],
         'tasks': [t for t in q if t['mode'] == 'boh']},
        {'name': 'line_confident_enough > -> <', 'patches': [(_PP, 'return worst_best_prob > confidence_threshold', 'return worst_best_prob < confidence_threshold')],
         'tasks': [t for t in q if t['mode'] == 'plc' and t['F'] <= 2][:8]},
        {'name': 'compute_line_confidence without normalisation', 'patches': [(_PP, '        log_probs = logits - np.logaddexp.reduce(logits, axis=1)[:, np.newaxis]\n        best_ids', '        log_probs = logits\n        best_ids')],
         'tasks': [t for t in q if t['mode'] == 'plc' and t['F'] <= 2][:8]},
    ]

"""C17 replay: the real parse_folder.main() on a real temporary directory tree; the page parser, the layout
writers and cv2 are stand-ins that write real files, and the run is killed at the given write positions."""
import io
import os
import shutil
import sys
import tempfile
import types
import contextlib

from user_scripts import parse_folder as pf

KINDS = ('xml', 'render', 'logits', 'alto', 'lines')
EXT = {'xml': '.xml', 'render': '.jpg', 'logits': '.logits', 'alto': '.xml'}


class Crash(BaseException):
    pass


def _lines_of(page_id):
    return ['l0'] if page_id.endswith('1') or page_id in ('a', 'x') else ['l0', 'l1']


def _run_batch(case):
    kinds, ids = case['kinds'], case['ids']
    root = tempfile.mkdtemp(prefix='c17_')
    state = {'k': 0, 'crash': -1, 'processed': [], 'run': 0}
    dirs = {k: os.path.join(root, 'out_' + k) for k in kinds}
    indir = os.path.join(root, 'in')
    os.makedirs(indir)
    for p in ids:
        with open(os.path.join(indir, p + '.jpg'), 'w') as f:
            f.write('input ' + p)
    cfg = os.path.join(root, 'config.ini')
    with open(cfg, 'w') as f:
        f.write('[PAGE_PARSER]\n')

    def event(path, content):
        k = state['k']
        state['k'] += 1
        if k == state['crash']:
            raise Crash()
        with open(path, 'w') as f:
            f.write(content)

    class Crop:
        def astype(self, t):
            return self

    class Line:
        def __init__(self, lid):
            self.id, self.transcription, self.crop = lid, 'text', Crop()

    class Region:
        def __init__(self, lines):
            self.lines = lines

    class PageLayout:
        def __init__(self, id=None, page_size=(0, 0), file=None):
            self.id, self.page_size, self.regions, self.image = id, page_size, [], None

        def lines_iterator(self):
            for r in self.regions:
                for l in r.lines:
                    yield l

        def to_pagexml(self, path):
            event(path, 'xml %s %s' % (self.id, self.image))

        def save_logits(self, path):
            event(path, 'logits %s %s' % (self.id, self.image))

        def to_altoxml(self, path):
            event(path, 'alto %s %s' % (self.id, self.image))

        def render_to_image(self, image):
            pass

        def load_logits(self, path):
            pass

    class Image:
        def __init__(self, name):
            self.name, self.shape = name, (10, 10, 3)

    class PageParser:
        provides_ctc_logits = True
        decoder = None

        def __init__(self, config, config_path='', device=None):
            pass

        def process_page(self, image, page_layout):
            state['processed'].append((state['run'], page_layout.id))
            page_layout.image = image.name
            page_layout.regions = [Region([Line(l) for l in _lines_of(page_layout.id)])]
            return page_layout

    cv2 = types.SimpleNamespace(IMWRITE_JPEG_QUALITY=1)
    cv2.imread = lambda path, flag=1: Image(os.path.basename(path)) if os.path.exists(path) else None
    cv2.imwrite = lambda path, img, params=None: event(path, 'img %s' % getattr(img, 'name', ''))
    saved = {k: getattr(pf, k) for k in ('PageLayout', 'PageParser', 'cv2', 'get_device', 'setup_logging', 'parse_arguments')}
    pf.PageLayout, pf.PageParser, pf.cv2 = PageLayout, PageParser, cv2
    pf.get_device = lambda *a, **k: 'cpu'
    pf.setup_logging = lambda c: None
    pf.parse_arguments = lambda: types.SimpleNamespace(
        config=cfg, skip_processed=True, input_image_path=indir, input_xml_path=None, input_logit_path=None,
        output_xml_path=dirs.get('xml'), output_render_path=dirs.get('render'), output_line_path=dirs.get('lines'),
        output_logit_path=dirs.get('logits'), output_alto_path=dirs.get('alto'), output_transcriptions_file_path=None,
        skipp_missing_xml=False, device='cpu', gpu_id=None, process_count=1)

    def files():
        out = {}
        for k, d in dirs.items():
            if os.path.isdir(d):
                for n in os.listdir(d):
                    out[('out_' + k, n)] = open(os.path.join(d, n)).read()
        return out
    problems = []
    try:
        crashes = [int(c) for c in case.get('crash_at', [])]
        plan = crashes + [-1] if case['mode'] == 'resume' else [-1, -1]
        runs = []
        for r, c in enumerate(plan):
            state.update(k=0, crash=c, run=r)
            before = files()
            try:
                with contextlib.redirect_stdout(io.StringIO()):
                    pf.main()
                runs.append(('finished', before))
            except Crash:
                runs.append(('killed', before))
            except BaseException as e:
                if isinstance(e, SystemExit):
                    raise
                problems.append('run %d ended with %r' % (r, e))
                runs.append(('error', before))
        final = files()
        exp = {}
        for p in ids:
            for k in kinds:
                if k == 'lines':
                    for l in _lines_of(p):
                        exp[('out_lines', '%s-%s.jpg' % (p, l))] = None
                else:
                    exp[('out_' + k, p + EXT[k])] = '%s %s %s' % ({'render': 'img'}.get(k, k), p, p + '.jpg') if k != 'render' else 'img %s' % (p + '.jpg')
        missing = sorted(k for k in exp if k not in final)
        if missing and not problems:
            problems.append('missing after the final run: %r' % (missing[:4],))
        for k, v in exp.items():
            if v is not None and k in final and final[k] != v:
                problems.append('%r has content %r, an uninterrupted run writes %r' % (k, final[k], v))
        for r, (status, before) in enumerate(runs):
            for pg in ids:
                need = [k for k in exp if (k[0] != 'out_lines' and k[1] == pg + EXT[k[0][4:]]) or (k[0] == 'out_lines' and k[1].startswith(pg + '-'))]
                if need and all(k in before for k in need) and (r, pg) in state['processed']:
                    problems.append('page %s was complete before run %d but was processed again' % (pg, r))
        return sorted(list(k) for k in final), problems
    finally:
        for k, v in saved.items():
            setattr(pf, k, v)
        shutil.rmtree(root, ignore_errors=True)


def replay(case):
    try:
        final, problems = _run_batch(case)
    except Exception as e:
        return {'reproduced': True, 'detail': 'raised %r' % (e,)}
    return {'reproduced': bool(problems), 'detail': '; '.join(problems[:3]) or 'ok'}


def check_witness(w):
    final, problems = _run_batch(w)
    return {'match': final == w['expect'], 'got': final, 'problems': problems[:2]}

"""C16 replay against the real modules (run under /venv/bin/python)."""
import math
from fractions import Fraction

import numpy as np
import scipy.sparse

from pero_ocr.core import confidence_estimation as ce
from pero_ocr.core.layout import TextLine
from pero_ocr.document_ocr import page_parser as pp
from pero_ocr.decoding.bag_of_hypotheses import BagOfHypotheses

TOL = 1e-7


def _f(x):
    if x is None:
        return None
    if isinstance(x, str):
        if x in ('inf', '-inf', 'nan'):
            return float(x)
        return float(Fraction(x))
    return float(x)


def _line(W, lam=None):
    F, C = len(W), len(W[0])
    a = np.zeros((F, C))
    for t in range(F):
        for c in range(C):
            if W[t][c] is not None:
                w = Fraction(W[t][c]) if isinstance(W[t][c], str) else Fraction(W[t][c])
                if lam is not None:
                    w = w * Fraction(lam[t])
                a[t, c] = math.log(w.numerator) - math.log(w.denominator)
                if a[t, c] == 0.0:
                    a[t, c] = 1e-300          # a stored entry is never exactly 0.0 (precondition)
    return TextLine(id='l', logits=scipy.sparse.csc_matrix(a), characters=['a', 'b'])


def _close(a, b):
    return abs(a - b) <= TOL * max(1.0, abs(a), abs(b))


def _uniform_rows(mask, F, C):
    return all(len(set(mask[t * C:(t + 1) * C])) == 1 for t in range(F))


def evaluate(case):
    """-> (values, failed claims)"""
    mode = case['mode']
    bad = []
    if mode == 'plc':
        W = case['W']
        F, C = len(W), len(W[0])
        line = _line(W)
        conf = float(pp.PageParser.compute_line_confidence(line))
        if not (-TOL <= conf <= 1 + TOL):
            bad.append('range: %r' % conf)
        full = line.get_full_logprobs()
        if not np.allclose(np.exp(full).sum(axis=1), 1.0, atol=1e-9):
            bad.append('normalised')
        if _uniform_rows(case['mask'], F, C):
            conf2 = float(pp.PageParser.compute_line_confidence(_line(W, case['lam'])))
            if not _close(conf, conf2):
                bad.append('shift-invariance: %r vs %r' % (conf, conf2))
        dense = line.get_dense_logits()
        tha, thb = _f(case['th_a']), _f(case['th_b'])
        ca = bool(pp.line_confident_enough(dense, tha))
        cb = bool(pp.line_confident_enough(dense, thb))
        if ca and thb <= tha and not cb:
            bad.append('threshold-monotone')
        return {'conf': conf, 'ce_a': ca}, bad
    if mode in ('glc', 'glc_tr', 'glc_e2e'):
        W = case['W']
        F, C = len(W), len(W[0])
        labels = [int(x) for x in case['labels']]
        kw = {}
        if mode == 'glc':
            kw['aligned_letters'] = np.array([int(x) for x in case['positions']])
        conf = ce.get_line_confidence(_line(W), labels if mode != 'glc_e2e' else np.array(labels), **kw)
        conf = [float(x) for x in conf]
        if any(not (-TOL <= x <= 1 + TOL) for x in conf):
            bad.append('range: %r' % conf)
        if mode == 'glc_tr':
            for i, l in enumerate(labels):
                row = [Fraction(x) for x in W[i]]
                if not _close(conf[i], float(row[l] / sum(row))):
                    bad.append('posterior')
        if mode != 'glc_e2e' and _uniform_rows(case['mask'], F, C):
            conf2 = [float(x) for x in ce.get_line_confidence(_line(W, case['lam']), labels, **kw)]
            if any(not _close(a, b) for a, b in zip(conf, conf2)):
                bad.append('shift-invariance: %r vs %r' % (conf, conf2))
        return conf, bad
    if mode == 'glc_onehot':
        F, C = case['F'], case['C']
        labels = [int(x) for x in case['labels']]
        st = [int(x) for x in case['states']]
        sym = [(C - 1) if s % 2 == 0 else labels[s // 2] for s in st]
        lp = np.full((F, C), -np.inf)
        for t in range(F):
            lp[t, sym[t]] = 0.0

        class L:
            logits = lp
        with np.errstate(all='ignore'):
            conf = [float(x) for x in ce.get_line_confidence(L(), labels, aligned_letters=np.array([int(x) for x in case['positions']]), log_probs=lp)]
        if any(not _close(x, 1.0) for x in conf):
            bad.append('not-one: %r' % conf)
        return conf, bad
    if mode == 'letter':
        W = case['W']
        lg = np.array([[math.log(Fraction(x)) for x in row] for row in W])
        al = [int(x) for x in case['alignment']]
        r1 = [float(x) for x in ce.get_letter_confidence(lg, al, lg.shape[1] - 1)]
        lam = [math.log(Fraction(x)) for x in case['lam']]
        r2 = [float(x) for x in ce.get_letter_confidence(lg + np.array(lam)[:, None], al, lg.shape[1] - 1)]
        if any(x > TOL for x in r1):
            bad.append('range: %r' % r1)
        if any(not _close(a, b) for a, b in zip(r1, r2)):
            bad.append('shift-invariance')
        n_letters = len([1 for i, s in enumerate(al) if s != lg.shape[1] - 1 and (i == 0 or al[i - 1] != s)])
        if len(r1) != n_letters:
            bad.append('count')
        return [math.exp(x) for x in r1], bad
    if mode == 'letter_onehot':
        F, C = case['F'], case['C']
        al = [int(x) for x in case['alignment']]
        lg = np.full((F, C), -np.inf)
        for t in range(F):
            lg[t, al[t]] = 0.0
        with np.errstate(all='ignore'):
            r = [float(x) for x in ce.get_letter_confidence(lg, al, C - 1)]
        if any(not _close(x, 0.0) for x in r):
            bad.append('not-one: %r' % r)
        return [math.exp(x) for x in r], bad
    if mode == 'boh':
        vis = [_f(x) for x in case['vis']]
        lm = [_f(x) for x in case['lm']]
        wt = _f(case['lm_weight'])
        # keep the scores in a range where float exp is well behaved (the claim is about exact arithmetic)
        bag = BagOfHypotheses(lm_weight=wt)
        for i, (v, l) in enumerate(zip(vis, lm)):
            bag.add('t%d' % i, v, l)
        tot = bag.total_scores()
        use_lm = all(l is not None for l in lm)
        exp_tot = [v + wt * l if use_lm else v for v, l in zip(vis, lm)]
        if any(not _close(a, b) for a, b in zip(tot, exp_tot)):
            bad.append('totals')
        post = bag.posteriors()
        ps = [math.exp(x) for x in post]
        if not _close(sum(ps), 1.0) or any(p < 0 for p in ps):
            bad.append('posteriors-sum')
        conf = bag.confidence()
        if not (0 < conf <= 1 + TOL):
            bad.append('confidence-range')
        best = max(range(len(vis)), key=lambda i: exp_tot[i])
        if not _close(conf, ps[best]) and not any(_close(exp_tot[i], exp_tot[best]) and _close(conf, ps[i]) for i in range(len(vis))):
            bad.append('confidence-argmax')
        for i in range(len(vis)):
            if not _close(bag.transcript_confidence('t%d' % i), ps[i]):
                bad.append('transcript-confidence')
        if bag.transcript_confidence('not there') != 0.0:
            bad.append('missing')
        if case.get('lm_weight_2') is not None:
            bag.lm_weight = _f(case['lm_weight_2'])
            ps2 = [math.exp(x) for x in bag.posteriors()]
            c2 = bag.confidence()
            if not _close(sum(ps2), 1.0) or any(p < 0 for p in ps2) or not (0 < c2 <= 1 + TOL):
                bad.append('posteriors-sum-reweighted: %r, confidence %r' % (ps2, c2))
        return {'conf': conf}, bad
    raise ValueError(mode)


def replay(case):
    try:
        vals, bad = evaluate(case)
    except Exception as e:
        return {'reproduced': True, 'detail': 'raised %r' % (e,)}
    return {'reproduced': bool(bad), 'detail': '; '.join(bad) if bad else 'ok %r' % (vals,)}


def check_witness(w):
    vals, bad = evaluate(w)
    exp = w['expect']
    ok = not bad
    if w['mode'] == 'boh':
        pass            # exp() is uninterpreted in the encoding: only the claims are re-checked
    elif w['mode'] == 'plc':
        ok = ok and _close(vals['conf'], _f(exp['conf']))
    else:
        ok = ok and len(vals) == len(exp) and all(_close(a, _f(b)) for a, b in zip(vals, exp))
    return {'match': bool(ok), 'got': repr(vals), 'bad': bad}

"""C15 replay against the real line_ocr_engine (run under /venv/bin/python)."""
import numpy as np
from pero_ocr.ocr_engine import line_ocr_engine as loe


def _build(case):
    # characters: integer codes -> distinct unicode letters; equal codes = equal letters
    parts = [''.join(chr(0x4e00 + (c % 2000)) for c in p) for p in case['parts']]
    # provenance rows: (part, row)
    logits = [np.array([[i * 1000 + j] for j in range(len(p) + case['extra'])], dtype=np.int64).reshape(-1, 1)
              for i, p in enumerate(parts)]
    return parts, logits


def _run(case):
    parts, logits = _build(case)
    ov = []
    real = loe.find_best_overlap
    forced = list(case['overlaps']) if case['mode'] == 'anyov' else None

    def rec(a, b):
        o = forced.pop(0) if forced is not None else real(a, b)
        ov.append(o)
        return o
    loe.find_best_overlap = rec
    try:
        text, lg = loe.merge_transcriptions_and_logits(parts, logits)
    finally:
        loe.find_best_overlap = real
    return parts, text, lg, ov


def _check(parts, text, lg, ov):
    lens = [len(p) for p in parts]
    if len(text) != sum(lens) - sum(ov):
        return 'length %d != %d - %d' % (len(text), sum(lens), sum(ov))
    # reconstruct what the merge must be, from the overlaps
    o1 = ov[0] if ov else 0
    keep0 = lens[0] - (o1 - o1 // 2)
    guard = True
    cur = lens[0]
    for i in range(1, len(lens)):
        o = ov[i - 1]
        left_keep = cur - (o - o // 2)
        if left_keep < keep0:
            guard = False
        cur = left_keep + lens[i] - o // 2
    if guard and text[:keep0] != parts[0][:keep0]:
        return 'does not begin with first part less ceil(o/2): %r vs %r' % (text, parts[0][:keep0])
    ol = ov[-1] if ov else 0
    tail = parts[-1][ol // 2:]
    if not text.endswith(tail):
        return 'does not end with the last part: %r vs %r' % (text, tail)
    if lg.shape[0] != len(text):
        return 'logits rows %d != %d characters' % (lg.shape[0], len(text))
    if ov and all(o == 0 for o in ov) and text != ''.join(parts):
        return 'no overlap but not concatenated: %r' % (text,)
    if all(o == 0 for o in ov):
        rows = [int(x) for x in lg[:, 0]]
        exp = [i * 1000 + j for i, p in enumerate(parts) for j in range(len(p))]
        if rows != exp:
            return 'logit rows %r != %r' % (rows, exp)
    return None


def replay(case):
    try:
        parts, text, lg, ov = _run(case)
    except Exception as e:
        return {'reproduced': True, 'detail': 'raised %r' % (e,)}
    # provenance check through expected owner when the case has full info
    bad = _check(parts, text, lg, ov)
    if bad is None:
        bad = _prov(case, parts, text, lg, ov)
    return {'reproduced': bad is not None, 'detail': bad or ('ok: %r overlaps %r' % (text, ov))}


def _model(parts, ov):
    """what the merge must produce given the overlaps: list of (part, idx)"""
    res = [(0, j) for j in range(len(parts[0]))]
    for i in range(1, len(parts)):
        o = ov[i - 1]
        res = res[:len(res) - (o - o // 2)] + [(i, j) for j in range(o // 2, len(parts[i]))]
    return res


def _prov(case, parts, text, lg, ov):
    exp = _model(parts, ov)
    if len(exp) != len(text):
        return None
    rows = [int(x) for x in lg[:, 0]]
    if rows != [i * 1000 + j for i, j in exp]:
        return 'logit provenance %r != %r' % (rows, [i * 1000 + j for i, j in exp])
    if text != ''.join(parts[i][j] for i, j in exp):
        return 'text %r != model %r' % (text, ''.join(parts[i][j] for i, j in exp))
    return None


def check_witness(w):
    parts, text, lg, ov = _run(w)
    exp_owner = w['expect']['text_owner']
    got_text_ok = len(text) == len(exp_owner) and all(text[k] == parts[i][j] for k, (i, j) in enumerate(exp_owner))
    rows = [int(x) for x in lg[:, 0]]
    exp_rows = [int(r[1:].split('r')[0]) * 1000 + int(r.split('r')[1]) for r in w['expect']['rows']]
    return {'match': bool(got_text_ok and rows == exp_rows and list(ov) == list(w['overlaps'])),
            'got': {'text': text, 'rows': rows, 'ov': ov}}

#!/usr/bin/env python3
"""fills the cost table of DESIGN.md 7.7 from the summary lines of check runs: gen_cost_table.py <dir with q_<ID>.log / t_<ID>.log>"""
import os, re, sys
V = os.path.dirname(os.path.dirname(os.path.abspath(__file__)))
d = sys.argv[1] if len(sys.argv) > 1 else '/tmp'
pat = re.compile(r'(C\d\d) (quick|thorough): tasks=(\d+) paths=(\d+) decisions=(\d+) queries=(\d+) \(unsat (\d+), sat (\d+), unknown (\d+)\) solver=([\d.]+)s '
                 r'witnesses_validated=(\d+) violations=(\d+) known=(\d+) canaries=(\d+) wall=([\d.]+)s -> exit (\d)')
rows = []
for i in range(1, 21):
    pid = 'C%02d' % i
    cells = [pid]
    for pre in ('q', 't'):
        f = os.path.join(d, '%s_%s.log' % (pre, pid))
        m = None
        if os.path.exists(f):
            for l in open(f, errors='replace'):
                mm = pat.search(l)
                if mm:
                    m = mm
        if m is None:
            cells += ['-'] * 5
        else:
            cells += [m.group(3), m.group(4), m.group(6), '%.0f s' % float(m.group(10)), '%.0f s (exit %s%s)' % (float(m.group(15)), m.group(16), (', %s canaries' % m.group(14)) if pre == 't' else '')]
    rows.append('| ' + ' | '.join(cells) + ' |')
tab = ('| id | quick: tasks | paths | queries | solver CPU | wall | thorough: tasks | paths | queries | solver CPU | wall |\n|' + '---|' * 11 + '\n' + '\n'.join(rows))
p = os.path.join(V, 'DESIGN.md')
s = open(p).read()
if '<!--COST-->' in s:
    s = re.sub(r'(<!--COST-->).*?(<!--/COST-->)', lambda m_: m_.group(1) + '\n' + tab + '\n' + m_.group(2), s, flags=re.S)
else:
    s = s.replace('COSTTABLE', '<!--COST-->\n' + tab + '\n<!--/COST-->')
open(p, 'w').write(s)
print(tab)

#!/usr/bin/env python3
"""prints the prompt given to a mutant-writing sub-agent for one property (property text only, nothing from /verif)"""
import json, sys
pid = sys.argv[1]
props = {json.loads(l)['id']: json.loads(l) for l in open('/verif/properties.jsonl')}
p = props[pid]
print(f"""You are helping to evaluate a verification effort for the Python project DCGM/pero-ocr (an OCR pipeline). Your job is to write a small, realistic, *subtle* code change ("seeded defect") that breaks one stated semantic property of the code base while the project still imports, runs, and passes its existing test suite.

You have your own scratch git worktree of the project at /tmp/wt_{pid} (work only there; never touch /repo or /verif, and do not read anything under /verif). The project's Python environment is /venv/bin/python (numpy, scipy, torch, lxml, cv2, shapely, sklearn are installed; there is no network).

THE PROPERTY ({pid}: {p['title']}):
{p['statement']}

It is meant to hold for: {p['quantifier']['text']}

Relevant files: {', '.join(p['anchors']['files'])}

WHAT TO PRODUCE: two *different* seeded changes (call them m1 and m2), each in its own output directory /tmp/seed_out/{pid}/m1 and /tmp/seed_out/{pid}/m2, each containing:
  - patch.diff : the change as a unified diff produced by `git -C /tmp/wt_{pid} diff` (so that `git apply patch.diff` works from the repository root). Touch only files of the pero-ocr source tree (pero_ocr/ or user_scripts/), not the tests.
  - demo.py : a small standalone program (run as `cd <repo root> && PYTHONPATH=<repo root> /venv/bin/python demo.py`) that exits 0 on the ORIGINAL code and exits non-zero (assertion failure) WITH the change applied, by exercising the public functions/classes the property is about and checking the property's statement on a specific input. It must not depend on the worktree path: import pero_ocr / user_scripts modules normally (the runner sets PYTHONPATH and cwd to the repository root under test).
  - meta.json : {{"property": "{pid}", "summary": "<one line: what was changed>", "needs": "<what specific input/sequence/configuration is needed for the defect to manifest>", "files": [...]}}

REQUIREMENTS FOR EACH CHANGE:
  1. It must look like a plausible maintenance edit or refactoring slip (an off-by-one, a changed comparison, a swapped argument, a dropped special case, a stale cache, a wrong default, two sites that each look fine alone...), not sabotage, and be small (a few lines).
  2. It must NOT be exposed by ordinary use at once: it should need something specific to manifest -- an unusual input (a tie, an empty or one-element sequence, a repeated symbol, a boundary value), a particular multi-step sequence of operations, a particular configuration, or a particular crash/interleaving point. A change that breaks every call is useless.
  3. With the change applied the project's existing test suite must still pass exactly as before: run `cd /tmp/wt_{pid} && /venv/bin/python -m pytest -q -p no:cacheprovider --timeout=900 2>&1 | tail -5` before and after; the baseline is 217 passed, 4 failed (the 4 failures in test/test_decoding/test_multisort.py are pre-existing and expected), and it must be the same with your change.
  4. demo.py must pass (exit 0) on the unchanged worktree and fail (non-zero) with the change. Verify both yourself.
  5. m1 and m2 should break the property in different ways / at different code sites if possible.

When finished, revert the worktree to a clean state (`git -C /tmp/wt_{pid} checkout -- .`), and reply with a short summary of the two changes (files, what they need to manifest) and confirmation of the test-suite and demo results. Do not commit anything. Do NOT use `git stash` (the stash is shared between worktrees and other people work in sibling worktrees at the same time); to switch between the original and the changed code use `git diff > file` / `git checkout -- .` / `git apply file`.""")

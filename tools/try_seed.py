#!/usr/bin/env python3
"""Confirm a seeded change and run the registered check against it.

usage: tools/try_seed.py <PROP> <dir with patch.diff, demo.py, meta.json> <name> [--tier quick|thorough] [--skip-tests]

1. scratch worktree of /repo HEAD: demo passes without the patch, fails with it; the repo's test suite result is
   unchanged (217 passed / 4 known failures).
2. git -C /repo apply patch; run the check; git -C /repo checkout -- .   (never committed)
3. store patch, demo and meta (incl. what was run and the outcome) under /verif/seeded/<PROP>-<name>/
"""
import json, os, shutil, subprocess, sys, time

REPO = '/repo'
VERIF = '/verif'


def sh(cmd, cwd=None, env=None, timeout=3600):
    p = subprocess.run(cmd, shell=True, cwd=cwd, env=env, capture_output=True, text=True, timeout=timeout)
    return p.returncode, p.stdout + p.stderr


def main():
    prop, src, name = sys.argv[1:4]
    tier = 'quick'
    if '--tier' in sys.argv:
        tier = sys.argv[sys.argv.index('--tier') + 1]
    skip_tests = '--skip-tests' in sys.argv
    patch = os.path.abspath(os.path.join(src, 'patch.diff'))
    demo = os.path.abspath(os.path.join(src, 'demo.py'))
    meta = json.load(open(os.path.join(src, 'meta.json')))
    wt = '/tmp/wt_try_%s_%s' % (prop, name)
    sh('git -C %s worktree remove --force %s' % (REPO, wt))
    rc, out = sh('git -C %s worktree add -q --detach %s HEAD' % (REPO, wt))
    assert rc == 0, out
    ran = []
    try:
        env = dict(os.environ, PYTHONPATH=wt, PYTHONWARNINGS='ignore')
        rc0, o0 = sh('/venv/bin/python %s' % demo, cwd=wt, env=env)
        ran.append('demo on unpatched worktree: rc=%d' % rc0)
        rc, out = sh('git apply %s' % patch, cwd=wt)
        assert rc == 0, 'patch does not apply: ' + out
        rc1, o1 = sh('/venv/bin/python %s' % demo, cwd=wt, env=env)
        ran.append('demo on patched worktree: rc=%d' % rc1)
        tests = None
        prev = os.path.join(VERIF, 'seeded', '%s-%s' % (prop, name), 'meta.json')
        if skip_tests and os.path.exists(prev):
            # the test-suite confirmation of an earlier try of the same patch stays on record
            tests = (json.load(open(prev)).get('confirmed') or {}).get('tests')
        if not skip_tests:
            rc, out = sh('/venv/bin/python -m pytest -q -p no:cacheprovider --timeout=900 2>&1 | tail -1', cwd=wt)
            tests = out.strip()
            ran.append('test suite on patched worktree: %s' % tests)
    finally:
        sh('git -C %s worktree remove --force %s' % (REPO, wt))
    demo_ok = (rc0 == 0 and rc1 != 0)
    tests_ok = skip_tests or ('217 passed' in tests and '4 failed' in tests)
    # run the check on a patched copy of the tree (VERIF_REPO points the loader and the replayer at it), so that
    # several seeded changes can be tried concurrently and /repo itself is never modified; --in-repo applies the
    # patch to /repo itself instead (git apply ... run ... git checkout -- .)
    in_repo = '--in-repo' in sys.argv
    if in_repo:
        rc, out = sh('git -C %s status --porcelain' % REPO)
        assert out.strip() == '', '/repo not clean: ' + out
        rc, out = sh('git -C %s apply %s' % (REPO, patch))
        assert rc == 0, out
        target = REPO
    else:
        target = '/tmp/wt_chk_%s_%s' % (prop, name)
        sh('git -C %s worktree remove --force %s' % (REPO, target))
        rc, out = sh('git -C %s worktree add -q --detach %s HEAD' % (REPO, target))
        assert rc == 0, out
        rc, out = sh('git apply %s' % patch, cwd=target)
        assert rc == 0, out
    try:
        t0 = time.time()
        env = dict(os.environ, VERIF_REPO=target, VERIF_EVIDENCE_DIR='/tmp/ev_%s_%s' % (prop, name))
        crc, cout = sh('python3-vt %s/check.py %s --tier %s --no-canaries' % (VERIF, prop, tier), cwd=VERIF, timeout=7200, env=env)
        dt = time.time() - t0
    finally:
        if in_repo:
            sh('git -C %s checkout -- .' % REPO)
        else:
            sh('git -C %s worktree remove --force %s' % (REPO, target))
        shutil.rmtree('/tmp/ev_%s_%s' % (prop, name), ignore_errors=True)
    viol = [l for l in cout.splitlines() if l.startswith('VIOLATION') or l.startswith('  key=')]
    ran.append('%s check (%s tier) on /repo with the patch applied: exit %d in %.0fs' % (prop, tier, crc, dt))
    detected = (crc == 1 and any(l.startswith('VIOLATION') for l in viol))
    outdir = os.path.join(VERIF, 'seeded', '%s-%s' % (prop, name))
    os.makedirs(outdir, exist_ok=True)
    shutil.copy(patch, os.path.join(outdir, 'patch.diff'))
    shutil.copy(demo, os.path.join(outdir, 'demo.py'))
    meta.update({'property': prop, 'confirmed': {'demo_passes_without_fails_with': demo_ok, 'test_suite_unchanged': tests_ok,
                                                 'tests': tests},
                 'ran': ran, 'check_exit': crc, 'detected': detected, 'violation_lines': viol[:8], 'tier': tier,
                 'check_tail': cout.strip().splitlines()[-3:]})
    json.dump(meta, open(os.path.join(outdir, 'meta.json'), 'w'), indent=1)
    print(json.dumps({k: meta[k] for k in ('summary', 'confirmed', 'check_exit', 'detected', 'violation_lines')}, indent=1))
    if not (demo_ok and tests_ok):
        print('NOT CONFIRMED: seeded change rejected (kept for the record, marked unconfirmed)')


if __name__ == '__main__':
    main()

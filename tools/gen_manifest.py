#!/usr/bin/env python3
"""Regenerates /verif/MANIFEST.json from the table below (kept by hand)."""
import json, os, sys
VERIF = os.path.dirname(os.path.dirname(os.path.abspath(__file__)))

CHECKS = {
    'C13': dict(
        text='Bounded symbolic execution of the real sequence_alignment.py / error_summary.py source over symbolic '
             'integer sequences (all equality patterns) and symbolic costs in [1,4]; on every path z3 proves the result '
             'equal to the textbook DP minimum (distance), the alignment to project onto both inputs and to cost '
             'exactly that minimum, the substring variants to equal the minimum over all substrings, and the error '
             'summary to add up.  Within the bound (lengths <= 3 quick, <= 4 thorough) this covers every input; '
             'nothing is claimed beyond it.',
        note='Trusted: z3; the symnp numpy facade (cross-checked on every run by replaying solver models of explored '
             'paths on real numpy and comparing outputs); integers stand for symbols (mixed-type lists and numpy dtype '
             'coercion are outside the encoding).',
        design='4/C13'),
    'C15': dict(
        text='Bounded symbolic execution of the real merge_transcriptions_and_logits / find_best_overlap / '
             'levenshtein_distance source over parts made of symbolic characters (every equality pattern) with '
             'provenance-labelled logit rows.  On every path the merged length, the retained head of the first part, '
             'the tail of the last part, the logit row count and the row-to-character provenance are checked against '
             'the overlaps the detector returned; a second harness replaces the detector by an arbitrary admissible '
             'overlap so that 3-4 parts are covered independently of the edit-distance forks.',
        note='Trusted: z3, the symnp facade (validated by witness replay on real numpy), characters as integer codes. '
             "'At most half of the overlap' is read as ceil(o/2) from the left part, floor(o/2) from the right part.",
        design='4/C15'),
    'C14': dict(
        text='Bounded symbolic execution of the real confusion_networks.py (add_hypothese, normalize_cn, produce_cn_from_boh, '
             'best_cn_path, sorted_cn_paths) with levenshtein_alignment_path over histories of hypotheses made of symbolic '
             'characters (every equality pattern, every addition order) and symbolic positive scores; the network is the '
             "code's own list of dicts.  After every addition z3 decides, under the path condition, that every hypothesis "
             'added so far is readable in order, that the old network embeds position-wise, that each pre-existing position '
             'gained exactly the score on one arc, that normalised positions sum to 1 and that the path enumeration lists '
             'every arc combination once in non-increasing order summing to 1.  Bound: 1..3 hypotheses of length <= 3 '
             '(quick) / <= 4 (thorough), bags from produce_cn_from_boh incl. bags that begin with the empty transcript; nothing is claimed beyond it.',
        note='Trusted: z3, the symnp facade (validated by witness replay on the real module), characters as integer codes, '
             'math.exp as an uninterpreted positive increasing function.  One recorded known finding (empty hypothesis added '
             'to an empty network leaves no trace).',
        design='4/C14'),
    'C05': dict(
        text='Bounded symbolic execution of the real force_alignment.py (force_align, viterbi_align, compute_update, '
             'backtrack, align_text ...) on a T x C cost matrix of extended reals (each entry a symbolic real or +inf, the '
             'inf pattern symbolic), symbolic labels and symbolic blank index.  Per path z3 decides that the returned state '
             'path is a valid CTC alignment of the labels, that no valid competitor alignment (T universally quantified '
             'state variables) is cheaper, that ValueError is raised iff no finite-cost alignment exists or the blank is '
             'among the labels, and that align_text positions are strictly increasing, lie in the frames of their character '
             'and are the most confident of them.  Bound: T<=4, L<=2 and T=L=3, C=3 quick; T<=5, L<=3 and C=4 (T<=3) thorough.',
        note='Trusted: z3 (linear real arithmetic), the symnp facade (validated by witness replay on real numpy/numba), '
             'numba jit = identity on the same source; reals stand for floats (no nan).',
        design='4/C05'),
    'C16': dict(
        text='Bounded symbolic execution of the real confidence code (get_line_confidence incl. the transformer branch, '
             'get_letter_confidence, PageParser.compute_line_confidence / get_prob, line_confident_enough, '
             'BagOfHypotheses.total_scores/posteriors/confidence/transcript_confidence, TextLine.get_dense_logits / '
             'get_full_logprobs) in the LogP domain: a logit is its weight w > 0, log-softmax is the quotient w/sum(w) '
             '(a fresh variable with the linear facts q > 0, sum q = 1, order of numerators; the nonlinear definition is a '
             'lazy axiom only used when a claim does not follow without it), adding a constant to a frame is w -> lambda*w. '
             'z3 decides on every path: every confidence in [0,1]; posteriors positive and summing to 1; bag confidence = '
             'posterior of an arg-max total; invariance under per-frame shifts (the scaled run yields syntactically the same '
             'quotients); one-hot posteriors give 1; the confident-line test is monotone in its threshold.  Bound: F <= 3 '
             'frames x 3 symbols, labels <= 2, bags <= 3, each bag queried again after its LM weight was changed (quick); F <= 4, labels <= 3, bags <= 4, all prune patterns for F <= 3 (thorough).',
        note='Trusted: z3; the symnp/LogP facade (witness replay on the real numpy/scipy code); exact reals for floats; exp of '
             'LM-weighted totals is an uninterpreted positive increasing function; alignment positions are arbitrary strictly '
             'increasing frames (what align_text returns is C05), plus one end-to-end run with the real align_text at F = 2.',
        design='4/C16'),
    'C19': dict(
        text='Bounded symbolic execution of the real merge_layouts / get_confidences on real PageLayout, RegionLayout and TextLine '
             'objects with the per-character confidences of every (engine, line) symbolic reals in [0,1] (or the failing-'
             'confidence fallback), so that every ordering and tie pattern of the mean confidences is inside the query.  '
             'Per path z3 decides that the merged line carries transcription, logits and character table of one and the same '
             'engine, that this engine is the first one attaining the maximal positive mean and that the recorded confidence '
             'is that maximum; that nothing is recorded when no mean is positive; ids, geometry and order are unchanged; '
             'self-merge is the identity; mismatching ids are refused.  Bound: <= 3 engines x <= 2 lines (quick), 4 engines x 1 '
             'line, 3 x 2, 2 x 3 (thorough).',
        note='Trusted: z3 (linear real arithmetic), the symnp facade (witness replay on the real module).  get_line_confidence '
             'is a stub returning arbitrary values in [0,1] (what it computes is C16).',
        design='4/C19'),
    'C08': dict(
        text='One inductive step from an arbitrary pre-state: the real PageDecoder.process_page / decode_line run on a page '
             'after last_h, last_line and the counters have been overwritten with arbitrary symbolic values (None / any LM '
             'state / any string, emptiness symbolic), and on a fresh decoder; the beam decoder, the LM and the confident-line '
             'test are uninterpreted functions, transcriptions are terms of an uninterpreted sort, and z3 (EUF) decides on every '
             'path (per-line confident / missing-logits outcomes symbolic, carry_h_over and threshold on/off) that both runs '
             'give the same term for every line.  Since every reachable state is an instance of "arbitrary", this covers '
             'histories of any length, order and repetition.  A static pass lists every stage class that writes self.* during '
             'process_page (only PageDecoder may), and LMWrapper.__init__ is executed to discharge the determinism assumption '
             '(model put into eval mode).  Bound: pages of <= 3 (quick) / <= 4 (thorough) lines.',
        note='Trusted: z3 EUF; decoder/LM determinism (C02/C03, torch in eval mode); a worker process is modelled as an object with '
             'some history; GPU nondeterminism and random numbers in layout helpers are outside.',
        design='4/C08'),
    'C02': dict(
        text='Bounded symbolic execution of the real CTCPrefixLogRawNumpyDecoder (and helpers, top_k, BagOfHypotheses) on a T x C '
             'matrix in the LogP domain: each log-probability is its probability p > 0 (rows sum to 1, optionally exact zeros), so '
             'every score is a polynomial in p.  np.argpartition is a nondeterministic stub returning ANY k-subset whose scores '
             'are >= all dropped ones (every tie-break), the ranking constraints joining the path condition.  On every path: '
             'transcripts pairwise distinct; each score <= the sum over all C^T alignments collapsing to it (ref - score expands '
             'to non-negative coefficients in z3\'s sum-of-monomials normal form, else an nlsat query); after every frame the beam '
             'is a set of k best prefixes of an independent reference prefix beam search with identical score polynomials; '
             'unpruned (k unbounded, non-pruning selector) every non-zero transcript is returned with exactly its CTC probability; '
             'a matrix is rejected iff a row sum is off by more than 1e-5.  Bound: T <= 3, C = 3, k in {1,2,3,unbounded} (quick); '
             'T = 4 / C = 4 (thorough).',
        note='Trusted: z3 (simplifier normal form + nlsat), the symnp/LogP facade (guided concolic witness runs replayed on the real '
             'decoder), exact reals for floats; e^-10 of the default selector is a symbolic constant within 2^-40 of its value; the '
             'order of the returned bag (BagOfHypotheses.sort) is not claimed.',
        design='4/C02'),
    'C03': dict(
        text='Same engine as C02 with a language model attached: the LM is a stub with the LMWrapper interface whose state is the '
             'prefix and whose score for (prefix, character) and end-of-line is a free real variable (any history-dependent LM); '
             'lm_scale in (0,3] and the insertion bonus are symbolic (scale * score is a named product with a lazy definition), scale 0 is a family of tasks with a concrete 0.  '
             'On every path (every admissible top-k and arg-max choice): the LM score of each returned hypothesis equals the sum of '
             'the model\'s own per-character scores along the transcript plus bonus per character plus end-of-line score; the '
             'returned LM state is that of a hypothesis maximising visual + scale x LM; with scale 0 the ranking terms contain no LM '
             'variable; the bag archives the decoder\'s scale; a supplied start state is not modified.  BagOfHypotheses.best_hyp is an arg-max of total_scores for symbolic scores and weight.  Bound: T <= 2 '
             '(3 for k = 2), C = 3, k <= 3 (quick); T = 3, k <= 3 and C = 4 (thorough).',
        note='Trusted: as C02; exp(scale * lm) in the ranking is an uninterpreted positive increasing function (the bookkeeping claims '
             'hold for any selection, so this cannot cause a false alarm); the torch LMWrapper is outside.',
        design='4/C03'),
    'C09': dict(
        text='Bounded symbolic execution of the real _gen_logits / save_logits / save_logits_bytes / load_logits on a saver and a '
             'loader layout whose line ids are symbolic (every equality pattern between the two: subset, superset, disjoint), '
             'with provenance tokens as logits / characters / frame windows and symbolic presence of each component; z3 decides per '
             'path and loader line that it carries exactly the three components saved under its id, or is untouched when its id is '
             'not in the file; missing components are refused in the default mode; legacy files load; dense reconstruction '
             '(get_dense_logits / get_full_logprobs / prepare_dense_logits) returns stored weights unchanged, the floor for pruned '
             'entries, rows summing to 1 and keeps within-frame ratios (LogP domain, every prune pattern of a 2 x 3 matrix).  '
             'After other logits are assigned to the same line object the reconstruction follows them.  Bound: 0..2 lines per layout (quick), 0..3 (thorough).',
        note='Trusted: z3; pickle = deep copy and open() = in-memory file (stubs); scipy.sparse contract (entries != 0 are stored). '
             'Known finding: ids equal to the reserved keys line_characters / logit_coords.',
        design='4/C09'),
    'C04': dict(
        text='Bounded symbolic execution of the real greedy_decode_ctc (3-D branch, through a minimal torch shim over the array '
             'facade), GreedyDecoder.__call__ and greedy_filtration on one score tensor N x C x T of symbolic reals with a unique '
             'maximum per frame: for every arg-max pattern (decided by the solver) all three outputs equal the CTC collapse of the '
             'arg-max path, for every line of the batch.  Bound: N = 1, T <= 3 and N = 2, T <= 2 with C = 3 (quick); N = 1, T <= 4, '
             'C <= 4; N = 2, T <= 3; N = 3, T = 2 (thorough).',
        note='Trusted: z3 (linear real arithmetic), the torch shim (cat / argmax / slicing / masks; witness replay on real torch), '
             'unique maxima (ties are outside: torch and numpy need not agree on them).',
        design='4/C04'),
    'C01': dict(
        text='Bounded symbolic execution of the real PAGE XML writer and reader (to_pagexml_string, RegionLayout.to_page_xml, '
             'from_pagexml, get_region_from_page_xml, points_string_to_array, reading-order functions) on layouts whose '
             'coordinates, heights, confidences, indices, page size and reading-order indices are symbolic reals / integers '
             '(negative and fractional values included); numbers inside attribute strings are placeholders that parse back to the '
             'printed value (exact for integers, correctly rounded for .1f / .3f).  z3 decides per path: every imported coordinate '
             '= round-half-even of the original, heights within 0.05, confidence within 0.0005, indices / ids / types / texts / '
             'page size identical (\'\' vs absent kept apart); export(import(export(L))) is a fixpoint (trees equal, placeholders '
             'provably equal values) for both PAGE versions; regions are held, written and re-loaded sorted by reading-order index '
             '(unlisted last, stable) for every index assignment and every partial map.  Bound: <= 2 regions x <= 2 lines, 3-point '
             'polygons, 3 regions for the reading order (quick); 3 regions, 4-point polygons, 4 regions (thorough).',
        note='Trusted: z3; the lxml stub (serialise . parse = identity on structure/attributes/text, \'\' -> None, default namespace): '
             'XML escaping and Unicode legality are inside lxml and outside the claim; witness replay uses the real lxml.',
        design='4/C01'),
    'C17': dict(
        text='Bounded symbolic execution of the real parse_folder.main(), load_already_processed_files(_in_directory) and '
             'Computator.__call__ over a modelled file system: every output write is an event and run r is killed when its event '
             'counter reaches a symbolic crash index c_r (the solver decides the feasible positions: before the first, between '
             'any two, after the last write); up to three crashes are followed by an uninterrupted run, all with skip-processed.  '
             'On every path: every requested output of every page exists at the end and carries the token (page id, kind, image it '
             'was computed from) of an uninterrupted run; a page whose requested outputs were all present at the start of a run is '
             'not processed in that run; no run ends with an exception.  Configurations: subsets of {xml, render, logits, alto, '
             'lines}, id sets {p1,p2}, {a.b,a}, {x.xml.y,x}.  Bound: 1 crash, 10 kind subsets (quick); 3 crashes, all 31 subsets, '
             'three pages, more id sets (thorough); one id set in both tiers has ids and image file names that sort differently.',
        note='Trusted: z3 (integer arithmetic only); writes are atomic and ordered; the page parser is a deterministic stand-in (C08); '
             'replay runs the real main() on a real temporary directory with real os / re.  Known finding: only line crops requested.',
        design='4/C17'),
    'C12': dict(
        text='Bounded symbolic execution of the real smart sorter (Region, CoupledRegions.intersect / add_regions / update_corners / '
             'divide_and_order / decouple / get_ordered_ids / __eq__, SmartRegionSorter.process_page) and naive sorter (Region, '
             'process_page, sort_regions over an exact 1-D DBSCAN model) on pages of 0..n regions whose boxes have symbolic corners '
             '(zero-width / zero-height, identical, nested and mutually overlapping boxes are inside the space) with symbolic '
             'intersection parameter, image width and width denominator.  On every path: no exception, the recursion stays within a '
             'step budget (a budget hit would be reported as possible non-termination), the returned regions are exactly the input '
             'objects, each once, with polygon and text untouched.  Division by a zero extent follows numpy scalar semantics '
             '(inf / nan, no exception); Python-float values are tracked so that a change to Python floats raises as it would.  '
             'Pages with slanted lines: the de-skew rotation is an abstract invertible map (counterexamples of these tasks are replayed on the page made of the de-skewed boxes).  Bound: n <= 2 fully symbolic, n = 3 with one axis symbolic (quick); all six arrangements, n = 4 with one symbolic box and a concave variant (thorough); three regions with both axes symbolic are not scheduled (about 100 min).',
        note='Trusted: z3 (linear real arithmetic), DBSCAN model (components of |a-b| <= eps, ValueError on empty input and eps <= 0), '
             'de-skew angle 0 (no or horizontal lines); non-zero de-skew runs through shapely / cv2 and is outside.',
        design='4/C12'),
    'C07': dict(
        text='Bounded symbolic execution of the real BaseEngineLineOCR.process_lines (ctc bookkeeping) and PageOCR.process_page with line '
             'crops of SYMBOLIC width (every ordering, equal widths, widths beyond the engine maximum) and symbolic batch size 1..16: the '
             'padded batch tensor is a placement canvas recording which image was written at which offset, the network is an '
             'environment stub whose output for a row depends only on the image placed in that row.  On every path z3 decides for every '
             'input position: the transcription was computed from that image on exactly its own width (or the engine maximum when it '
             'is wider), the logits are that row\'s, the frame window starts at the first cell of the image and ends with the last '
             'cell lying entirely inside it, tight-crop returns that window, no-logits returns none.  Sparse storage: on one frame of '
             'log-weights an entry is kept unchanged iff its posterior is >= 1e-4 (softmax through the quotient abstraction).  '
             'An empty logit matrix passes through the sparsification.  Bound: 0..3 lines (3 only in the dense flavour: quick; in all flavours: thorough); four lines were measured (> 90 min) and are not scheduled.',
        note='Trusted: z3 (linear integer arithmetic with floor division); the stub network (locality of frames is the property\'s own '
             'hypothesis); witness replay on the real process_lines with a recording network.',
        design='4/C07'),
    'C11': dict(
        text='Bounded symbolic execution of the real assign_lines_to_regions / mask_textline_by_region and of LayoutExtractor.process_page / '
             'TextlineExtractorSimple.process_page over an abstract geometry kernel: rectangular regions and 2-point baselines have '
             'symbolic coordinates; for one focus (line, region) pair at a time the kernel\'s answers are chosen by the solver within '
             'shapely\'s contract (intersects or not, validity of both polygons, baseline intersection empty / one piece / 2-3 pieces of '
             'symbolic lengths / other geometry, outline intersection polygon / 2-3 pieces of symbolic areas / other).  On every path: a '
             'line is placed only if it touches the region and the clipped kinds are line / polygon, it carries the longest baseline '
             'piece (> 2 px) and the largest outline piece, a baseline wholly inside the region and longer than 2 px is placed unchanged, '
             'a pair dropped by the bounding-box pre-filter cannot be an inside line, touching the convex hull of an invalid region does not count as touching the region, all line ids are distinct; LayoutExtractor: ids '
             'distinct for all 16 option combinations with a stub detector returning 0..2 lines per orientation.  Bound: 1x1, 2x1, 1x2 '
             'regions x lines (quick); 2x2, 3x1, 1x3 (thorough).',
        note='Trusted: z3 (linear real arithmetic); GEOS/shapely itself is outside (only the repo\'s use of its answers is checked); the '
             'baseline length is a free non-negative real.  Known finding: duplicate ids with multi-orientation on pre-existing regions.',
        design='4/C11'),
    'C18': dict(
        text='ONLY the coordinate clause (second sentence) of the property: bounded symbolic execution of the real '
             'LayoutEngine.rotate_layout, LayoutEngine.detect (network, map parser and clustering replaced by stubs returning '
             'symbolic points in the rotated frame) and layout_helpers.order_lines_vertical for a page of symbolic, possibly '
             'non-square size and all four orientations: z3 decides that every returned baseline, outline and region point lies '
             'within one pixel (per axis) of its position in the original image (np.rot90 index map as documented), and that '
             'baselines, heights and outlines stay aligned index-wise through the vertical ordering.  The first sentence (one text '
             'line per ridge of the detection maps, end points, heights) is NOT claimed: it is scipy.ndimage morphology over whole '
             'maps, outside what this technique reaches here (DESIGN.md 7.6).',
        note='Trusted: z3 (linear arithmetic); np.rot90 index map (the replay measures it on a real rotated image); jittered sort '
             'keys assumed distinct (probability-0 event otherwise).',
        design='4/C18, 7.6'),
    'C06': dict(
        text='Bounded symbolic execution of the real to_altoxml_string / from_altoxml / get_hwvh and of ArabicHelper._reverse (with its public '
             'wrappers) where every character of a transcription is a class representative chosen by the solver (U+0020, another white-'
             'space character, charset letter, out-of-charset letter, Arabic letter; 7 classes for the order conversion) and page size, '
             'polygons, baselines, heights, alignment positions, character confidences, crop grid and minimum line confidence are '
             'symbolic.  On every path: the export does not raise; a non-blank line appears exactly once unless its confidence is below '
             'the minimum; the String contents are transcription.split() (order-converted on Arabic lines) on the aligned, fallback, '
             'absent-logits and unknown-window branches; every geometry attribute is an integer; WC in [0,1]; re-import gives the same '
             'words; print space = bounding box of the blocks and the margins cover the rest (symbolic block boxes); the order '
             'conversion is a permutation and an involution.  Further task families: an Arabic line precedes the line in the same block (script handling is per line); the real get_line_confidence instead of its stub.  Bound: transcriptions <= 3 characters, order conversion <= 4 (quick); '
             '<= 4 / <= 6 (thorough).',
        note='Trusted: z3; one representative per character class (the code distinguishes characters only by these classes); align_text, '
             'get_line_confidence and the line cropper are stubs with symbolic results (C05 / C16 / C10); the lxml stub (escaping outside); '
             'word box positions are not claimed, only their integrality.',
        design='4/C06'),
    'C10': dict(
        text='ONLY the arithmetic clauses of the property that live in the repository\'s own code: (1) "the pixels are the same whether the line '
             'lies wholly inside the page or not": bounded symbolic execution of the real EngineLineCropper.fast_remap with 1..3 sample points of '
             'symbolic real coordinates on a page of symbolic size, cv2.remap modelled as a bilinear sampler over an uninterpreted pixel '
             'function with a constant-0 border and numpy slicing with its clipping / negative-index semantics: z3 decides that, whichever '
             'branch is taken, every sample reads the same four pixels with the same weights as on the whole page (so a fast path taken '
             'for a band that leaves the page, a sub-image one pixel short or a shifted origin is a counterexample); (2) the fallback: '
             'crop() turns a failing get_crop_inputs into a blank crop of the configured height, never an error.  The geometric clauses '
             '(width, uniform columns, perpendicular rows, every non-degenerate baseline is cropped) are NOT claimed (DESIGN.md 7.6).',
        note='Trusted: z3 (linear arithmetic with floor + uninterpreted functions); the OpenCV INTER_LINEAR / BORDER_CONSTANT contract (fixed-point '
             'weights outside); witness replay uses the real cv2 on a random image.',
        design='4/C10, 7.6'),
    'C20': dict(
        text='The cache bookkeeping of the transformer decoder: bounded symbolic execution of the real CustomMultiheadAttention.infer / '
             'cached_forward, DecoderLayer.infer and Decoder.infer over a row-level model of torch (symx/rowtorch.py) in which every '
             'operation along the embedding dimension (linear maps, head split, scaling, dot products, soft-max, weighted sums, layer '
             'norm, ReLU) is an uninterpreted function of the rows it reads, every pure data movement (slicing, assignment into the '
             'caches, view, transpose, chunk, bmm indexing) runs concretely and torch.empty yields fresh stale constants.  For every '
             'step, line, depth, head count, batch size and history (fresh model; a previous batch of the same size, of a different '
             'size, or one that ran longer) the cached result, the result recomputed from scratch and the row of the masked full '
             'forward pass are the same term (EUF, decided syntactically or by z3), contain no stale or previous-batch constant and no '
             'input of another line of the batch (indexing yields views, += writes through: aliasing is modelled); postprocess_decoded drops everything from the first boundary symbol on and every '
             'ignore symbol; transcribe_batch\'s greedy loop over an abstract network (arg-max symbol = uninterpreted function of the line and the symbols fed so far) gives a line inside a batch the transcription it gets alone.  Bound: <= 2 layers, <= 2 heads, batch <= 2, 3 steps, greedy loop 2 lines x cap 2 (quick); 3 / 3 / 3 / 4, greedy (2,3),(3,2) (thorough).  Not claimed: '
             'bit-identical floats, the encoder, the logits returned by transcribe_batch.',
        note='Trusted: z3 EUF; the row-level reading of torch (operations act on whole rows); the reference nn.MultiheadAttention / masked '
             'post-norm decoder layer written from the PyTorch documentation; replay runs a random-weight real Decoder in torch and compares '
             'cached, recomputed and masked-forward outputs numerically.',
        design='4/C20, 7.2'),
}

NOT_APPLICABLE = {
}

PENDING = 'check not built yet in this session (see DESIGN.md section 6 build order); no claim is made'


def main():
    props = [json.loads(l) for l in open(os.path.join(VERIF, 'properties.jsonl'))]
    checks = []
    na = []
    for p in props:
        pid = p['id']
        if pid in CHECKS:
            c = CHECKS[pid]
            checks.append({
                'property_id': pid,
                'quick_cmd': 'python3-vt /verif/check.py %s --tier quick' % pid,
                'thorough_cmd': 'python3-vt /verif/check.py %s --tier thorough' % pid,
                'evidence_file': '/verif/evidence/%s.json' % pid,
                'replay_cmd_template': 'python3-vt /verif/check.py %s --replay {path}' % pid,
                'engine': c.get('engine', 'symx'),
                'level_claimed': {'category': 'model_checking', 'text': c['text'], 'design_ref': 'DESIGN.md ' + c['design']},
                'level_note': c['note'],
                'technique': c.get('technique', 'bounded symbolic execution of the repo source + SMT (z3)'),
            })
        else:
            na.append({'property_id': pid, 'reason': NOT_APPLICABLE.get(pid, PENDING)})
    man = {
        'version': 1,
        'setup_cmd': 'mkdir -p /verif/evidence /verif/replays && python3-vt /verif/selftest.py',
        'hooks': {
            'guard': 'PERO_OCR_VERIF',
            'enable': 'no hooks: the checks load /repo source text into a shim namespace; nothing in /repo is instrumented',
            'baseline_off_cmd': 'cd /repo && /venv/bin/python -m pytest -ra -q -p no:cacheprovider --timeout=900 --continue-on-collection-errors',
            'source_commits': [],
            'add_only': True,
        },
        'engines': [
            {'name': 'symx', 'path': '/verif/symx', 'serves_properties': sorted(CHECKS),
             'kind_free_text': 'from-source symbolic executor for numpy-style Python: z3 terms behind a numpy facade, '
                               'forking by re-execution with decision prefixes, incremental solver stack, replay of models on the real code'},
        ],
        'checks': checks,
        'not_applicable': na,
        'notes': 'exit 0 held / 1 VIOLATION (replayed on real code) / 2 harness error or inconclusive. Known findings: /verif/known_findings.json.',
    }
    with open(os.path.join(VERIF, 'MANIFEST.json'), 'w') as f:
        json.dump(man, f, indent=1)
    print('wrote MANIFEST.json: %d checks, %d not_applicable' % (len(checks), len(na)))


if __name__ == '__main__':
    main()

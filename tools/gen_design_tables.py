#!/usr/bin/env python3
"""fills the seeded-change table (7.5) and the not-applicable table (7.6) of DESIGN.md from /verif/seeded/*/meta.json and MANIFEST.json"""
import glob, json, os, re
V = os.path.dirname(os.path.dirname(os.path.abspath(__file__)))

NOTES = {
    'C05-m2': 'float-only defect (exp saturates): found through the weakly-monotone float_exp abstraction; the replayer rescales the model\'s costs (x -> k*x + c) until float exp saturates',
    'C08-m2': 'not a C08 clause of the page decoder; caught by the C17 check (output computed from another page\'s image), stored as C17-from-C08-m2',
    'C18-m2': 'NOT detected: breaks the first sentence of C18 (heights of ridges in LayoutEngine.parse), which is not claimed (7.6)',
    'C10-m1': 'NOT detected: a 2-point baseline fitted with an under-determined quadratic (poly=2) bends the sampled band; the geometric clauses of C10 are outside the claim (7.6)',
    'C12-m2': 'first missed (de-skew angle was fixed to 0); the smart sorter now also runs with an arbitrary non-zero angle and the rotation as an abstract invertible map; the counterexample is replayed through the real shapely rotation with slanted lines',
    'C14-m2': 'first missed (no network in which two arc combinations spell the same string); the path harness now also runs networks whose positions share their arcs',
    'C03-m1': 'first missed: the top-k stub returned the kept entries in index order; it now also returns them reversed (numpy gives no order)',
    'C07-m1': 'first missed: the placement canvas forgot earlier writes; rows now keep all layers and a row that still shows an earlier line is a violation',
    'C09-m1': 'first a loud harness error (np.isclose missing from the facade); isclose added, then detected',
    'C16-m2': 'first a loud harness error (np.log of a symbolic real); log added (LogP value of the argument), then detected',
    'C02-m2': 'first model sat on the 1e-5 knife edge and did not reproduce in floats; robust-model selection added, then detected',
    'C04-m1': 'uses torch.roll: added to the torch shim',
    'C06-m3': 'first missed (one line per block): tasks added in which an Arabic line precedes the line in the same block, over an alphabet with a Latin delimiter',
    'C06-m4': 'first missed by C06 (get_line_confidence was only its contract stub) while the C16 check reported it (exception:ValueError); C06 now also runs tasks composed with the real get_line_confidence',
    'C09-m3': 'first missed (each line densified once): the dense task now assigns other logits to the same line object and densifies again',
    'C03-m4': 'first a harness error twice over: (1) the bag\'s archived weight was compared by object identity and the real replay did not look at it -- now a semantic claim `boh.lm_weight == scale`, replayed; (2) `lm_weight or 1.0` branches on `lm_scale != 0` under the polynomial path condition, which the incremental solver did not finish -- see 7.1 (fresh-solver retry, linear pre-check); scale 0 is now a family of concrete-0 tasks and the symbolic-scale tasks assume 0 < scale <= 3',
    'C02-m4': 'first a harness error (np.partition / np.flatnonzero missing from the facade; then the real replay skipped inputs with a tie at the k-th place): partition modelled on the admissible top-k stub, the reference beam search of the replay now follows every tie-break',
    'C07-m3': 'the float-only part (underflow of far-below-maximum frames) is outside the claim (reals); detected through the other half of the change: an EMPTY logit matrix (line narrower than one frame) now raises -- task F = 0 added',
    'C07-m4': 'first a harness error (the abstract frame sequence had no .shape); added, then detected by the window claim',
    'C11-m3': 'first missed (touching the convex hull was the same predicate as touching the region): the kernel now has a separate, weaker outcome `intersects_hull`',
    'C11-m4': 'first a harness error: the counterexample sat on the region edge with a 0.25 px baseline and the replay oracle did not look at pre-filter drops; robust model (strictly inside, >= 3 px) and the replay reports a dropped inside line',
    'C17-m4': 'first missed (no id set in which ids and image file names sort differently): id set [0, a.1, a] added',
    'C12-m3': 'first a harness error: the failing paths came from the abstract de-skew tasks, whose boxes are not what the sorter ordered; the replay now also runs the page made of the de-skewed boxes',
    'C12-m4': 'NOT detected: integer truncation inside rotate_polygon / rotate_line; the rotation is an abstract invertible map in the encoding (7.6) and replays use float arrays',
    'C16-m3': 'first missed (each bag queried under one weight): the bag task now changes lm_weight and queries again',
    'C16-m4': 'NOT detected: float-only (exp underflow when a frame lies > 700 below the global maximum); reals stand for floats',
    'C14-m4': 'first missed (no bag beginning with the empty transcript in the boh tasks); bags [\'\', xx] and [\'\', x, x] added',
    'C05-m4': 'first missed in the quick tier (labels <= 2): T = L = 3 added to the quick tier (the thorough tier had it)',
    'C18-m3': 'NOT detected: LayoutEngine.parse (first sentence of C18, not claimed, 7.6)',
    'C18-m4': 'NOT detected: LayoutEngine.parse (first sentence of C18, not claimed, 7.6)',
    'C20-m3': 'first missed (transcribe_batch\'s greedy loop was not encoded): the loop now runs over an abstract network (arg-max symbol = uninterpreted function of the line and the symbols fed so far); claim: a line gets inside a batch the transcription it gets alone',
    'C20-m4': 'first a harness error (real replay of the witnesses disagreed with the symbolic prediction: the row-level torch model copied on indexing and on +=); indexing now yields views and += writes through, inputs are cloned per call as the engine does',
    'C10-m3': 'NOT detected: get_crop_inputs scales the caller\'s heights array in place (needs LINE_SCALE != 1 and a second crop); get_crop_inputs is not executed by the check (geometric clauses, 7.6)',
    'C10-m4': 'first a harness error (the failing case did not carry which exception kind was raised; OverflowError was not among the kinds); fixed, detected',
    'C19-m4': 'NOT detected (also not by the C16 check): changes which frames count towards the last character\'s confidence; no clause of C16/C19 fixes that window, the merge still keeps the most confident result under the changed measure',
    'C08-m4': 'not a clause the C08 check looks at (resume bookkeeping in load_already_processed_files); the C17 check reports it (resume:output-missing:logits), stored as C17-from-C08-m4',
    'C15-m3': 'the change is in levenshtein_distance (C13\'s anchor; C15 assumes it exact): the C13 check reports it (dist:not-minimal), stored as C13-from-C15-m3',
    'C03-m3': 'first missed (aliasing: the caller\'s start state overwritten in place for k = 1): the supplied state object is compared with its value before the call',
}


def main():
    rows = []
    for d in sorted(glob.glob(os.path.join(V, 'seeded', '*'))):
        mf = os.path.join(d, 'meta.json')
        if not os.path.exists(mf):
            continue
        m = json.load(open(mf))
        name = os.path.basename(d)
        keys = sorted({l.split('key=')[1].split(' ')[0] for l in m.get('violation_lines', []) if 'key=' in l})
        det = 'detected' if m.get('detected') else ('harness error (exit 2)' if m.get('check_exit') == 2 else 'NOT detected')
        rows.append('| %s | %s | %s | %s | %s | %s |' % (name, m.get('property'), (m.get('summary') or '').replace('|', '/')[:170], (m.get('needs') or '').replace('|', '/')[:150],
                                                     det + ((': ' + ', '.join(k.split(':', 1)[1] if ':' in k else k for k in keys[:3])) if keys else ''),
                                                     NOTES.get(name, '')))
    seed = '| seeded change | breaks | what was changed | needs | %s check | note |\n|---|---|---|---|---|---|\n' % 'quick' + '\n'.join(rows)
    man = json.load(open(os.path.join(V, 'MANIFEST.json')))
    na = '| property | reason |\n|---|---|\n' + '\n'.join('| %s | %s |' % (x['property_id'], x['reason']) for x in man.get('not_applicable', []))
    na += '''

Clauses of *claimed* properties that are not decided (each check's `level_claimed.text` repeats its own list):

| property | clause not decided | why |
|---|---|---|
| C10 | width = baseline length x target height / line height, uniform columns, rows perpendicular to the baseline, "every non-degenerate baseline is actually cropped" | sqrt, rotation and an interpolant inside scipy: the harness written for the domain clause (uninterpreted interp1d, loose sqrt, lazy products) did not return from z3 within minutes and is not scheduled.  Observed concretely while designing (not a finding of a check): a baseline of >= 4 points whose rotated length has fractional part >= 0.9, e.g. (0,0) ... (13,5), makes the cubic interpolant raise and crop() return a blank image |
| C18 | "exactly one text line per sufficiently separated ridge; end points, vertical position and heights match the map" | scipy.ndimage convolution, dilation, labelling and percentiles over whole maps (C kernels whose trip count grows with the image); only the rotation / coordinate sentence is claimed |
| C12 | what the de-skew rotation computes numerically (incl. dtype truncation of integer coordinates: seeded C12-m4) | shapely.affinity; the rotation is an abstract invertible map (rotate by -a, then by +a = identity) |
| C10 | that get_crop_inputs leaves its arguments alone (seeded C10-m3: heights scaled in place) | get_crop_inputs is not executed symbolically (first row) |
| C16, C07 | behaviour when exp underflows (frames far below the global maximum: seeded C16-m4, C07-m3's main effect) | reals stand for floats |
| C07 | transformer-mode window splitting; sparse storage on more than one frame | C15 covers the merge; two frames of softmax quotients do not return from nlsat |
| C16 | end-to-end confidence with the real align_text beyond F = 2 | polynomial degree F comparisons in nlsat; covered by the decomposition C05 + arbitrary alignment |
| C01, C06 | XML escaping / Unicode legality / byte-level identity | inside lxml / libxml2 (stub assumes the round trip) |
| C11 | that a clipped piece IS the geometric intersection | GEOS |
| all | floating-point round-off, overflow, nan | reals stand for floats (exceptions: C05 uses a weakly monotone float exp; replays run in floats) |
'''
    p = os.path.join(V, 'DESIGN.md')
    s = open(p).read()
    s = re.sub(r'(<!--SEED-->).*?(<!--/SEED-->)', lambda m_: m_.group(1) + '\n' + seed + '\n' + m_.group(2), s, flags=re.S) if '<!--SEED-->' in s else s.replace('SEEDTABLE', '<!--SEED-->\n' + seed + '\n<!--/SEED-->')
    s = re.sub(r'(<!--NA-->).*?(<!--/NA-->)', lambda m_: m_.group(1) + '\n' + na + '\n' + m_.group(2), s, flags=re.S) if '<!--NA-->' in s else s.replace('NATABLE', '<!--NA-->\n' + na + '\n<!--/NA-->')
    open(p, 'w').write(s)
    print('DESIGN.md tables written: %d seeded changes' % len(rows))


if __name__ == '__main__':
    main()

"""Replays solver models against the REAL, unmodified pero-ocr modules.
Run with the repository's interpreter: /venv/bin/python /verif/replay.py FILE
FILE = {"property": "Cxx", "mode": "violation"|"witnesses", "case": ...}
Prints a line `REPLAY-RESULT <json>`; exit 0 always (the caller decides)."""
import importlib
import json
import os
import sys
import traceback

if hasattr(sys, 'set_int_max_str_digits'):
    sys.set_int_max_str_digits(0)
VERIF = os.path.dirname(os.path.abspath(__file__))
sys.path.insert(0, VERIF)
sys.path.insert(0, os.environ.get('VERIF_REPO', '/repo'))


def main():
    with open(sys.argv[1]) as f:
        job = json.load(f)
    mod = importlib.import_module('props.%s_real' % job['property'].lower())
    if job.get('mode') == 'witnesses':
        results = []
        for w in job['case']:
            try:
                results.append(mod.check_witness(w))
            except BaseException:
                results.append({'match': False, 'detail': traceback.format_exc()[-1500:]})
        out = {'reproduced': None, 'results': results}
    else:
        try:
            out = mod.replay(job['case'])
        except BaseException:
            out = {'reproduced': None, 'detail': 'replay raised: ' + traceback.format_exc()[-2000:]}
    print('REPLAY-RESULT ' + json.dumps(out, default=repr))


if __name__ == '__main__':
    main()
